#!/bin/bash
# confirm that a refactoring patch applies to /repo HEAD, builds and passes the unedited suite (scratch worktree, removed afterwards)
# usage: sa/confirm_ref.sh <dir with patch.diff> [slot]
set -u
D=$(readlink -f "$1")
SLOT=${2:-0}
WT=/tmp/wt-confirm-$SLOT-$$
export CARGO_NET_OFFLINE=true
git -C /repo worktree add -q --detach $WT HEAD || exit 9
cleanup() { git -C /repo worktree remove --force $WT; }
trap cleanup EXIT
T=/tmp/confirm-target-$SLOT
[ -d $T ] || cp -r /repo/target $T
export CARGO_TARGET_DIR=$T
cd $WT
git apply "$D/patch.diff" || { echo "PATCH DOES NOT APPLY"; exit 8; }
echo "== existing suite with the rewrite"
cargo test --offline 2>&1 | grep -E "^test result|^error|^warning: unused" | head -6

#!/bin/bash
# development aid (round 2): import what the sub-agents left in /tmp/r2s-<id>/{1,2} and /tmp/r2r-<id>/{1..4} into
# /verif/seeded/<id>-{3,4} (after confirming each with sa/confirm_seed.sh) and /verif/refactors/<id>-r{5..8}
# usage: sa/import_r2.sh s|r <id>
cd "$(dirname "$0")/.."
K=$1; ID=$2
if [ "$K" = s ]; then
  for n in 1 2; do
    src=/tmp/r2s-$ID/$n; [ -f $src/patch.diff ] && [ -f $src/demo.rs ] || { echo "$ID/$n: incomplete"; continue; }
    dst=seeded/$ID-$((n+2)); mkdir -p $dst
    cp $src/patch.diff $src/demo.rs $dst/; [ -f $src/notes.md ] && cp $src/notes.md $dst/agent_notes.md
    ./sa/confirm_seed.sh $dst $ID > $dst/confirm.log 2>&1
    echo "$ID-$((n+2)): $(grep -c 'test result' $dst/confirm.log) results: $(grep 'test result' $dst/confirm.log | head -3 | cut -c1-60 | tr '\n' '|')"
  done
else
  for n in 1 2 3 4; do
    src=/tmp/r2r-$ID/$n; [ -f $src/patch.diff ] || { echo "$ID/r$n: missing"; continue; }
    dst=refactors/$ID-r$((n+4)); mkdir -p $dst
    cp $src/patch.diff $dst/; [ -f $src/notes.md ] && cp $src/notes.md $dst/agent_notes.md
  done
fi

"""Pretty printer for the driver's MIR facts (diagnostics only)."""


def place(p):
    s = "_%d" % p["local"]
    for e in p["proj"]:
        k = e["k"]
        if k == "deref":
            s = "(*%s)" % s
        elif k == "field":
            s = "%s.<%s::%s>" % (s, e["owner"], e["name"])
        elif k == "index":
            s = "%s[_%d]" % (s, e["local"])
        elif k == "downcast":
            s = "(%s as %s)" % (s, e["variant"])
        elif k == "constindex":
            s = "%s[%s%d]" % (s, "-" if e["from_end"] else "", e["offset"])
        elif k == "subslice":
            s = "%s[%d..%s%d]" % (s, e["from"], "-" if e["from_end"] else "", e["to"])
        else:
            s = "%s.?%s" % (s, e.get("text", ""))
    return s


def operand(o):
    k = o["k"]
    if k in ("copy", "move"):
        return ("move " if k == "move" else "") + place(o["place"])
    if k == "const":
        if "fn" in o:
            return "fn:" + o.get("fn_resolved", o["fn"])
        if "promoted" in o:
            return "promoted[%d]" % o["promoted"]
        if "val" in o:
            return "%d_%s" % (o["val"], o["ty"])
        return o["text"]
    return o.get("text", "?")


def rvalue(r):
    k = r["k"]
    if k == "use":
        return operand(r["op"])
    if k == "ref":
        return ("&mut " if r["mut"] else "&") + place(r["place"])
    if k == "rawptr":
        return "&raw " + place(r["place"])
    if k == "binop":
        return "%s(%s, %s)" % (r["op"], operand(r["l"]), operand(r["r"]))
    if k == "unop":
        return "%s(%s)" % (r["op"], operand(r["x"]))
    if k == "cast":
        return "%s as %s [%s]" % (operand(r["op"]), r["ty"], r["kind"])
    if k == "discr":
        return "discr(%s)" % place(r["place"])
    if k == "aggregate":
        if r["agg"] == "adt":
            fs = r["fields"]
            return "%s::%s{%s}" % (
                r["adt"], r["variant"],
                ", ".join("%s: %s" % (fs[i] if i < len(fs) else i, operand(o)) for i, o in enumerate(r["ops"])))
        if r["agg"] == "closure":
            return "closure<%s>(%s)" % (r["closure"], ", ".join(operand(o) for o in r["ops"]))
        return "%s(%s)" % (r["agg"], ", ".join(operand(o) for o in r["ops"]))
    if k == "repeat":
        return "[%s; %s]" % (operand(r["op"]), r["n"])
    return r.get("text", "?")


def term(t):
    k = t["k"]
    if k == "goto":
        return "goto bb%d" % t["target"]
    if k == "switch":
        return "switch(%s) [%s, otherwise: bb%d]" % (
            operand(t["op"]), ", ".join("%d: bb%d" % (v, b) for v, b in t["targets"]), t["otherwise"])
    if k == "call":
        c = t["callee"]
        name = c.get("path") or ("indirect " + operand(c["indirect"]))
        return "%s = %s(%s) -> %s%s" % (
            place(t["dest"]), name, ", ".join(operand(a) for a in t["args"]),
            "bb%d" % t["target"] if t["target"] is not None else "!",
            " unwind bb%d" % t["unwind"] if t.get("unwind") is not None else "")
    if k == "assert":
        return "assert(%s == %s, %s) -> bb%d" % (operand(t["cond"]), t["expected"], t["kind"], t["target"])
    if k == "drop":
        return "drop(%s) -> bb%d" % (place(t["place"]), t["target"])
    return k + " " + t.get("text", "")


def body(b, with_cleanup=False):
    out = []
    out.append("fn %s  [%s] args=%d" % (b.get("path", "<promoted>"), b.get("span", ""), b["arg_count"]))
    for d in b["debug"]:
        out.append("  debug %s => %s" % (d["name"], place(d["place"])))
    for i, l in enumerate(b["locals"]):
        out.append("  let _%d: %s" % (i, l["ty"]))
    for i, blk in enumerate(b["blocks"]):
        if blk["cleanup"] and not with_cleanup:
            continue
        out.append("  bb%d%s:" % (i, " (cleanup)" if blk["cleanup"] else ""))
        for s in blk["stmts"]:
            if s["k"] == "assign":
                out.append("    %s = %s   // L%d" % (place(s["lhs"]), rvalue(s["rv"]), s["line"]))
            else:
                out.append("    %s %s" % (s["k"], s.get("text", "")))
        out.append("    %s   // L%d" % (term(blk["term"]), blk["term"]["line"]))
    for i, p in enumerate(b.get("promoted", [])):
        out.append("  promoted[%d]:" % i)
        out.extend("    " + x for x in body(p).split("\n"))
    return "\n".join(out)


if __name__ == "__main__":
    import json, sys, glob
    f = json.load(open(sys.argv[1]))
    pat = sys.argv[2]
    for b in f["bodies"]:
        if pat in b["path"]:
            print(body(b))
            print()

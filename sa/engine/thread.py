"""Jump threading on the driver's MIR facts (after closure desugaring and helper inlining).

When a block J only computes `d = discriminant(X)` and switches on it, and a predecessor path leaves a *statically known*
variant in X (an inlined helper's `return Err(..)` / `Ok(..)`, the `Some(..)` / `None` arms of a desugared combinator
feeding the next one, an `Err` travelling through `.with_context(..)` and `?`), that predecessor is redirected straight to
the arm the switch would take: the blocks in between are copied for it.  The CFG loses the infeasible paths "helper failed,
caller takes the success arm" that a path-insensitive dominance / must-fact analysis would otherwise have to consider.

Only blocks that are safe to copy are copied: assignments to plain locals, gotos/drops, and calls of a few functions that
merely pass a Result/Option on (anyhow context, `Try::branch`)."""

SIMPLE_RV = ("use", "ref", "discr", "cast", "unop", "binop", "aggregate", "repeat", "len", "rawptr")

# calls that hand their first argument's variant on to their result: name -> mapping of variants (None = unchanged)
TRY_MAP = {"Ok": "Continue", "Err": "Break", "Some": "Continue", "None": "Break"}


def transparent_call(t):
    """(argument local, variant mapping or None) if the call only passes an Option/Result on"""
    if t is None or t.get("k") != "call" or t.get("target") is None or not t.get("args"):
        return None
    c = t["callee"]
    if "indirect" in c:
        return None
    a0 = t["args"][0]
    if a0.get("k") not in ("move", "copy") or a0["place"]["proj"] or t["dest"]["proj"]:
        return None
    decl = c.get("decl", "") or ""
    name = c.get("name", "")
    if decl == "std::ops::Try::branch":
        return (a0["place"]["local"], TRY_MAP)
    if (c.get("krate") == "anyhow" and name in ("with_context", "context")) or decl in ("anyhow::Context::with_context", "anyhow::Context::context"):
        return (a0["place"]["local"], None)
    return None


def simple_stmts(blk):
    """only assignments to plain locals: copying them duplicates no effect"""
    for s in blk["stmts"]:
        if s.get("k") != "assign":
            if s.get("k") in ("storage", "nop", None):
                continue
            return False
        if s["lhs"]["proj"]:
            return False
        if s["rv"]["k"] not in SIMPLE_RV:
            return False
    return True


def copyable(blk):
    if blk.get("cleanup") or not simple_stmts(blk):
        return False
    t = blk["term"]
    if t["k"] in ("goto", "drop"):
        return t.get("target") is not None
    return transparent_call(t) is not None


def preds_of(blocks):
    pr = {i: [] for i in range(len(blocks))}
    for i, b in enumerate(blocks):
        t = b["term"]
        if t is None:
            continue
        k = t["k"]
        if k == "goto" or (k == "drop" and t.get("target") is not None):
            pr[t["target"]].append((i, "goto"))        # a drop is no effect the analyses look at
        elif k == "switch":
            for _, tb in t["targets"]:
                pr[tb].append((i, "switch"))
            if t.get("otherwise") is not None:
                pr[t["otherwise"]].append((i, "switch"))
        elif k in ("call", "assert"):
            if t.get("target") is not None:
                pr[t["target"]].append((i, k))
    return pr


def value_in_block(blk, local, upto=None):
    """what `local` holds at the end of the block's statements (or before statement index upto):
    ("variant", name) | ("local", other) meaning a copy of another local whose value is not set in this block |
    ("unknown",) | None (not assigned here)"""
    stmts = blk["stmts"]
    i = (len(stmts) if upto is None else upto) - 1
    while i >= 0:
        s = stmts[i]
        if s.get("k") == "assign" and s["lhs"]["local"] == local:
            if s["lhs"]["proj"]:
                return ("unknown",)
            rv = s["rv"]
            if rv["k"] == "aggregate" and rv.get("agg") == "adt" and rv.get("variant"):
                return ("variant", rv["variant"])
            if rv["k"] == "use" and rv["op"].get("k") == "const" and rv["op"].get("ty") == "bool" and "val" in rv["op"]:
                return ("variant", "#true" if rv["op"]["val"] else "#false")
            if rv["k"] == "use" and rv["op"].get("k") in ("move", "copy") and not rv["op"]["place"]["proj"]:
                inner = value_in_block(blk, rv["op"]["place"]["local"], i)
                if inner is None:
                    return ("local", rv["op"]["place"]["local"])
                return inner
            return ("unknown",)
        i -= 1
    return None


def apply_maps(v, maps):
    for m in maps:
        if m is not None:
            v = m.get(v)
            if v is None:
                return None
    return v


def resolve(blocks, preds, b, how, local, maps, depth):
    """walk backwards from block b (which flows into the path towards the switch) looking for a statically known variant
    of `local`; returns [(path, variant)], path[0] = the block that established it (its terminator gets redirected),
    path[1:] = blocks to copy"""
    out = []
    blk = blocks[b]
    t = blk["term"]
    if how == "call":
        # we arrived through this block's call: its result is the tracked local, or the call is not ours to copy
        c = t.get("callee", {})
        if t["dest"]["local"] == local and not t["dest"]["proj"]:
            if c.get("name") == "from_residual":
                ty = (t["dest"].get("ty") or c.get("self_arg_ty") or "")
                v = "Err" if ty.startswith("std::result::Result<") else "None" if ty.startswith("std::option::Option<") else None
                v = apply_maps(v, maps) if v else None
                if v:
                    out.append(([b], v))
                return out
            tc = transparent_call(t)
            if tc is None:
                return out
            local, maps = tc[0], [tc[1]] + maps
        else:
            return out          # an unrelated call: not copied
    val = value_in_block(blk, local)
    if val is not None:
        if val[0] == "variant":
            v = apply_maps(val[1], maps)
            if v:
                out.append(([b], v))
            return out
        if val[0] == "unknown":
            return out
        local = val[1]
    if depth <= 0 or not copyable(blk):
        return out
    for p, phow in preds.get(b, []):
        if p == b or phow not in ("goto", "call"):
            continue
        for path, v in resolve(blocks, preds, p, phow, local, maps, depth - 1):
            out.append((path + [b], v))
    return out


def fold_const_switches(blocks):
    """`if true` / `if cfg!(..)` / a folded constant: a switch on a literal has one feasible arm; the other arm's code is dead
    and must not count as a path (nor the literal as a 'condition' something is done under)"""
    n = 0
    for b in blocks:
        t = b["term"]
        if t is None or t["k"] != "switch":
            continue
        if t.get("exp"):
            # a literal that comes out of a macro (`cfg!(debug_assertions)` inside `debug_assert!`) is a build-configuration
            # switch: both configurations stay in the graph, so what is done only in one of them is not a fact in the other
            continue
        op = t["op"]
        if op.get("k") in ("move", "copy") and not op["place"]["proj"]:
            # `_t = const true; switchInt(move _t)`: the temporary is set in this block
            for s in reversed(b["stmts"]):
                if s.get("k") == "assign" and s["lhs"]["local"] == op["place"]["local"]:
                    if not s["lhs"]["proj"] and s["rv"]["k"] == "use":
                        op = s["rv"]["op"]
                    break
        if op.get("k") != "const" or "val" not in op:
            continue
        v = op["val"]
        if isinstance(v, bool):
            v = int(v)
        if not isinstance(v, int):
            continue
        tgt = None
        for val, tb in t["targets"]:
            if val == v:
                tgt = tb
        if tgt is None:
            tgt = t.get("otherwise")
        if tgt is None:
            continue
        nt = {"k": "goto", "target": tgt, "line": t.get("line"), "exp": t.get("exp", False), "folded": True}
        if "ifile" in t:
            nt["ifile"] = t["ifile"]
        b["term"] = nt
        n += 1
    return n


def thread_switches(raw, rounds=3):
    blocks = raw["blocks"]
    raw["folded"] = fold_const_switches(blocks)
    n_threaded = 0
    for _ in range(rounds):
        preds = preds_of(blocks)
        todo = []
        for j, J in enumerate(blocks):
            t = J["term"]
            if t is None or t["k"] != "switch" or J.get("cleanup") or not simple_stmts(J):
                continue
            op = t["op"]
            if op.get("k") not in ("move", "copy") or op["place"]["proj"]:
                continue
            if t.get("op_ty") == "bool":
                # a flag set to a literal on some arms (`a && b` as a value, `opt.is_some_and(..)` on the None arm)
                X = op["place"]["local"]
                variants = {"#false": 0, "#true": 1}
            else:
                if not J["stmts"]:
                    continue
                last = J["stmts"][-1]
                if last.get("k") != "assign" or last["rv"]["k"] != "discr" or last["rv"]["place"]["proj"] or last["lhs"]["proj"]:
                    continue
                if op["place"]["local"] != last["lhs"]["local"]:
                    continue
                X = last["rv"]["place"]["local"]
                variants = {name: idx for idx, name in last["rv"].get("variants", [])}
            if any(s.get("k") == "assign" and s["lhs"]["local"] == X for s in J["stmts"]):
                continue
            for p, how in preds.get(j, []):
                if p == j or how not in ("goto", "call"):
                    continue
                for path, v in resolve(blocks, preds, p, how, X, [], 10):
                    if v not in variants:
                        continue
                    tgt = None
                    for val, tb in t["targets"]:
                        if val == variants[v]:
                            tgt = tb
                    if tgt is None:
                        tgt = t.get("otherwise")
                    if tgt is None:
                        continue
                    todo.append((path, j, tgt))
        if not todo:
            break
        done_src = set()
        for path, j, tgt in todo:
            src = path[0]
            if src in done_src:
                continue
            st = blocks[src]["term"]
            if st["k"] not in ("goto", "drop", "call"):
                continue
            first = path[1] if len(path) > 1 else j
            if st.get("target") != first:
                continue
            J = blocks[j]
            meta = {"line": J["term"].get("line"), "exp": J["term"].get("exp", False)}
            if "ifile" in J["term"]:
                meta["ifile"] = J["term"]["ifile"]
            # copies of the blocks on the path, chained, then a copy of the switch block's statements going to the arm
            chain = path[1:]
            base = len(blocks)
            for k, bidx in enumerate(chain):
                ob = blocks[bidx]
                nxt = base + k + 1
                ot = ob["term"]
                if ot["k"] == "call":
                    nt = dict(ot, target=nxt, threaded=True)
                else:
                    nt = {"k": "goto", "target": nxt, "line": ot.get("line"), "exp": ot.get("exp", False), "threaded": True,
                          **({"ifile": ot["ifile"]} if "ifile" in ot else {})}
                blocks.append({"cleanup": False, "stmts": list(ob["stmts"]), "term": nt})
            blocks.append({"cleanup": False, "stmts": list(J["stmts"]), "term": dict(meta, k="goto", target=tgt, threaded=True)})
            if st["k"] == "call":
                blocks[src]["term"] = dict(st, target=base)
            else:
                blocks[src]["term"] = {"k": "goto", "target": base, "line": st.get("line"), "exp": st.get("exp", False),
                                       **({"ifile": st["ifile"]} if "ifile" in st else {})}
            done_src.add(src)
            n_threaded += 1
    raw["threaded"] = n_threaded
    return raw

"""Jump threading on the driver's MIR facts (after closure desugaring and helper inlining).

When a block J only computes `d = discriminant(X)` and switches on it, and a predecessor path leaves a *statically known*
variant in X (an inlined helper's `return Err(..)` / `Ok(..)`, the `Some(..)` / `None` arms of a desugared combinator
feeding the next one), that predecessor is redirected straight to the arm the switch would take.  The CFG loses the
infeasible paths "helper failed, caller takes the success arm" that a path-insensitive dominance / must-fact analysis
would otherwise have to consider."""

SIMPLE_RV = ("use", "ref", "discr", "cast", "unop", "binop", "aggregate", "repeat", "len", "rawptr")


def simple_block(blk):
    """only assignments to plain locals: copying it duplicates no effect"""
    for s in blk["stmts"]:
        if s.get("k") != "assign":
            if s.get("k") in ("storage", "nop", None):
                continue
            return False
        if s["lhs"]["proj"]:
            return False
        if s["rv"]["k"] not in SIMPLE_RV:
            return False
    return True


def preds_of(blocks):
    pr = {i: [] for i in range(len(blocks))}
    for i, b in enumerate(blocks):
        t = b["term"]
        if t is None:
            continue
        k = t["k"]
        if k == "goto" or (k == "drop" and t.get("target") is not None):
            pr[t["target"]].append((i, "goto"))        # a drop is no effect the analyses look at
        elif k == "switch":
            for _, tb in t["targets"]:
                pr[tb].append((i, "switch"))
            if t.get("otherwise") is not None:
                pr[t["otherwise"]].append((i, "switch"))
        elif k in ("call", "assert"):
            if t.get("target") is not None:
                pr[t["target"]].append((i, k))
    return pr


def known_variant(blk, local, upto=None):
    """scan the block's statements backwards (from index upto) for the value `local` holds at its end:
    ("variant", name) | ("copy", other_local, index) | ("unknown",) | None (not assigned here)"""
    stmts = blk["stmts"]
    i = (len(stmts) if upto is None else upto) - 1
    while i >= 0:
        s = stmts[i]
        if s.get("k") == "assign" and s["lhs"]["local"] == local:
            if s["lhs"]["proj"]:
                return ("unknown",)
            rv = s["rv"]
            if rv["k"] == "aggregate" and rv.get("agg") == "adt" and rv.get("variant"):
                return ("variant", rv["variant"])
            if rv["k"] == "use" and rv["op"].get("k") in ("move", "copy") and not rv["op"]["place"]["proj"]:
                return ("copy", rv["op"]["place"]["local"], i)
            return ("unknown",)
        i -= 1
    return None


def resolve(blocks, preds, b, local, depth, upto=None):
    """paths (list of block indices, last one flowing into the switch block) that end with a known variant in `local`:
    yields (path, variant).  path[0] is the block that established the variant; the rest are simple forwarding blocks"""
    out = []
    kv = known_variant(blocks[b], local, upto)
    while kv is not None and kv[0] == "copy":
        nxt = known_variant(blocks[b], kv[1], kv[2])
        if nxt is None:
            local, upto = kv[1], 0
            kv = None
            break
        local, upto = kv[1], kv[2]
        kv = nxt
    if kv is not None:
        if kv[0] == "variant":
            out.append(([b], kv[1]))
        return out
    # not assigned in this block: look into the predecessors if this block only forwards
    if depth <= 0 or not simple_block(blocks[b]) or blocks[b].get("cleanup"):
        return out
    for p, how in preds.get(b, []):
        if p == b:
            continue
        if how == "call":
            # `?` on a failure: the value is the result of FromResidual::from_residual — an Err / a None
            t = blocks[p]["term"]
            c = t.get("callee", {})
            if c.get("name") == "from_residual" and t["dest"]["local"] == local and not t["dest"]["proj"]:
                ty = (t["dest"].get("ty") or c.get("self_arg_ty") or c.get("gargs", "")).lstrip("[")
                if ty.startswith("std::result::Result<"):
                    out.append(([p, b], "Err"))
                elif ty.startswith("std::option::Option<"):
                    out.append(([p, b], "None"))
            continue
        if how != "goto":
            continue
        for path, v in resolve(blocks, preds, p, local, depth - 1):
            out.append((path + [b], v))
    return out


def thread_switches(raw, rounds=3):
    blocks = raw["blocks"]
    n_threaded = 0
    for _ in range(rounds):
        preds = preds_of(blocks)
        todo = []
        for j, J in enumerate(blocks):
            t = J["term"]
            if t is None or t["k"] != "switch" or J.get("cleanup") or not J["stmts"] or not simple_block(J):
                continue
            last = J["stmts"][-1]
            if last.get("k") != "assign" or last["rv"]["k"] != "discr" or last["rv"]["place"]["proj"] or last["lhs"]["proj"]:
                continue
            op = t["op"]
            if op.get("k") not in ("move", "copy") or op["place"]["proj"] or op["place"]["local"] != last["lhs"]["local"]:
                continue
            X = last["rv"]["place"]["local"]
            if any(s.get("k") == "assign" and s["lhs"]["local"] == X for s in J["stmts"]):
                continue
            variants = {name: idx for idx, name in last["rv"].get("variants", [])}
            for p, how in preds.get(j, []):
                if how != "goto" or p == j:
                    continue
                for path, v in resolve(blocks, preds, p, X, 8):
                    if v not in variants:
                        continue
                    tgt = None
                    for val, tb in t["targets"]:
                        if val == variants[v]:
                            tgt = tb
                    if tgt is None:
                        tgt = t.get("otherwise")
                    if tgt is None:
                        continue
                    todo.append((path, j, tgt))
        if not todo:
            break
        done_src = set()
        for path, j, tgt in todo:
            src = path[0]
            if src in done_src:
                continue
            st = blocks[src]["term"]
            if st["k"] not in ("goto", "drop", "call"):
                continue
            first = path[1] if len(path) > 1 else j
            if st.get("target") != first:
                continue
            stmts = []
            for b in path[1:]:
                stmts += list(blocks[b]["stmts"])
            stmts += list(blocks[j]["stmts"])
            J = blocks[j]
            meta = {"line": J["term"].get("line"), "exp": J["term"].get("exp", False)}
            if "ifile" in J["term"]:
                meta["ifile"] = J["term"]["ifile"]
            blocks.append({"cleanup": False, "stmts": stmts, "term": dict(meta, k="goto", target=tgt, threaded=True)})
            if st["k"] == "call":
                blocks[src]["term"] = dict(st, target=len(blocks) - 1)
            else:
                blocks[src]["term"] = {"k": "goto", "target": len(blocks) - 1, "line": st.get("line"), "exp": st.get("exp", False),
                                       **({"ifile": st["ifile"]} if "ifile" in st else {})}
            done_src.add(src)
            n_threaded += 1
    raw["threaded"] = n_threaded
    return raw

"""Rule bookkeeping: instances, violations (keyed), floors, evidence."""
import json
import os
import time


class Report:
    def __init__(self, prop):
        self.prop = prop
        self.instances = []      # (rule, where, what)
        self.violations = []     # dict(rule,key,where,msg,detail)
        self.floors = []         # (rule, what, counted, minimum)
        self.bodies = set()
        self.sites = 0
        self.notes = []
        self.t0 = time.time()

    # a discharged obligation
    def ok(self, rule, where, what, detail=None):
        self.instances.append({"rule": rule, "where": where, "what": what, "detail": detail, "ok": True})

    # a failed obligation; key must not contain line numbers or local names
    def bad(self, rule, key, where, msg, detail=None):
        v = {"rule": rule, "key": key, "where": where, "msg": msg, "detail": detail}
        # one report per key
        for o in self.violations:
            if o["key"] == key:
                o.setdefault("also", []).append(where)
                return
        self.violations.append(v)
        self.instances.append({"rule": rule, "where": where, "what": msg, "detail": detail, "ok": False})

    def floor(self, rule, what, counted, minimum, where="(crate)"):
        self.floors.append({"rule": rule, "what": what, "counted": counted, "minimum": minimum})
        if counted < minimum:
            self.bad(rule, "%s/floor/%s" % (rule, what.replace(" ", "-")), where,
                     "cannot establish %s: found %d %s, expected at least %d (anchor lost; failing closed)"
                     % (rule, counted, what, minimum))

    def missing(self, rule, what, where="(crate)"):
        self.bad(rule, "%s/missing/%s" % (rule, what.replace(" ", "-")), where,
                 "cannot establish %s: %s not found (anchor lost; failing closed)" % (rule, what))

    def analysed(self, body, nsites=0):
        self.bodies.add(body.path)
        self.sites += nsites

    def note(self, s):
        self.notes.append(s)

"""diagnostic: print events (field writes, calls) with provenance and guards"""
import sys, glob
from core import *

def dump(body, show_all=False):
    print("==", body.path, body.span)
    for site, s in body.writes():
        loc = body.expr_place(s["lhs"], site)
        val = body.expr_rvalue(s["rv"], site)
        print("  W bb%d.%d L%s  %s := %s" % (site[0], site[1], s["line"], show(loc, body), show(val, body)))
        for f in sorted(body.facts_at(site), key=repr):
            print("        | " + show(f, body))
    for site, t in body.calls():
        c = t["callee"]
        if c.get("krate") in ("log",) or (t.get("exp") and not show_all):
            continue
        if "indirect" in c:
            print("  C bb%d L%s  indirect" % (site[0], t["line"]))
            continue
        args = body.call_args(t, site)
        print("  C bb%d L%s  %s(%s)" % (site[0], t["line"], c["path"], ", ".join(show(deref_addr(body,a), body) for a in args)))
        for f in sorted(body.facts_at(site), key=repr):
            print("        | " + show(f, body))

if __name__ == "__main__":
    F = Facts(glob.glob(sys.argv[1])[0])
    for b in F.all_bodies():
        if sys.argv[2] in b.path:
            dump(b)

"""Core of the rule engine: facts loading, CFG, dominance, must-hold path facts,
reaching definitions and provenance expressions over the driver's MIR facts.

Nothing here runs sodg code.  Everything is computed from the JSON the rustc driver wrote.

Expressions are nested tuples (hashable):
  ("param", n)                      n-th argument local of the body (1-based)
  ("upvar", i)                      i-th captured variable of a closure body
  ("const", v) ("str", s) ("fn", path) ("constx", text) ("unit",)
  ("field", base, "Owner::name")    field of a location / value
  ("elem", coll, key)               element of an emap / Vec / array / slice
  ("load", loc, site)               value read from a location through a reference, at `site`
  ("addr", local, site)             address of a plain local
  ("call", path, args, site)        result of a call (site = (bb) so two calls differ)
  ("next", iter, site) ("item", iter, site)   iterator protocol
  ("iter", coll, how)               iterator over a collection
  ("adapt", name, iter, extra)      iterator adaptor
  ("binop", op, l, r) ("unop", op, x) ("cast", kind, x) ("discr", x)
  ("agg", adt, variant, ((field, expr), ...)) ("tuple", xs) ("array", xs) ("closure", path, ops)
  ("vfield", base, variant, idx)    payload of an enum variant (after canonicalisation mostly gone)
  ("phi", (e1, e2, ...))            several reaching definitions
  ("cyc", local)                    definition depends on itself (loop-carried)
"""
import json
import os
import re
import sys

sys.setrecursionlimit(10000)

TRANSPARENT_PAYLOAD = {"Some", "Ok", "Continue"}
ENUMS = {}   # enum name -> frozenset of variant names (filled when facts are loaded)


class Facts:
    def __init__(self, path):
        with open(path) as f:
            self.raw = json.load(f)
        self.bodies = {}
        self.by_key = {}
        import inline as _inl
        raws = {b["path"]: b for b in self.raw["bodies"]}
        import desugar as _ds
        _ds.desugar(raws)
        if not os.environ.get("SODG_NO_CLOSINL"):
            import closinl as _ci
            _ci.desugar_closures(raws)
        self.recursive = _inl.recursive_set(raws)
        cache = {}
        called = set()
        for p, b in raws.items():
            for cp in _inl.local_callees(b):
                if cp != p:
                    called.add(cp)
        self.helper_paths = set()
        for p, b in raws.items():
            rb = _inl.inline_body(raws, p, self.recursive, cache) if not os.environ.get("SODG_NO_INLINE") else b
            if not os.environ.get("SODG_NO_THREAD"):
                import thread as _th
                try:
                    _th.thread_switches(rb)
                except Exception:
                    pass
            body = Body(self, rb)
            self.bodies[body.path] = body
            if _inl.inlinable(b) and p not in self.recursive and p in called and not os.environ.get("SODG_NO_INLINE"):
                self.helper_paths.add(p)
        for body in self.bodies.values():
            if body.kind != "Closure":
                self.by_key.setdefault((body.self_adt, body.trait, body.name), []).append(body)
        # cfg(test) build: free functions of the crate are the unit tests (and the logger ctor); they are only
        # *callers* of the library and are not analysed as library bodies
        self.test_bodies = set()
        if self.raw.get("test"):
            for b in self.bodies.values():
                root = self.bodies.get(b.owner, b) if b.kind == "Closure" else b
                if root.kind == "Fn" and root.self_adt is None:
                    self.test_bodies.add(b.path)
        self.adts = {a["name"]: a for a in self.raw["adts"]}
        for a in self.raw["adts"]:
            if a["kind"] == "Enum":
                ENUMS[a["name"]] = frozenset(v["name"] for v in a["variants"])
        self.consts = {c["path"].split("::")[-1]: c.get("val") for c in self.raw.get("consts", [])}
        self.impls = self.raw["impls"]
        self.unsafe = self.raw["unsafe"]
        self._closure_env = {}

    def fn(self, self_adt, name, trait=None):
        """Find an API function by (self type, method name[, trait])."""
        c = self.by_key.get((self_adt, trait, name), [])
        return c[0] if len(c) == 1 else None

    def fns(self, self_adt, name, trait=None):
        return self.by_key.get((self_adt, trait, name), [])

    def closures_of(self, body):
        return [b for b in self.bodies.values() if b.kind == "Closure" and b.parent == body.path]

    def all_bodies(self):
        return [b for b in self.bodies.values() if b.path not in self.test_bodies]

    def roots(self):
        """bodies analysed as roots: everything except closures and private non-recursive helpers (whose code is
        physically inlined into their callers) — i.e. API functions, trait methods, recursive helpers, uncalled functions"""
        return [b for b in self.all_bodies() if b.kind != "Closure" and b.path not in self.helper_paths]


class Body:
    def __init__(self, facts, raw, parent_body=None):
        self.facts = facts
        self.raw = raw
        self.path = raw.get("path", "<promoted>")
        self.kind = raw.get("kind")
        self.name = raw.get("name")
        self.span = raw.get("span", "")
        self.self_adt = raw.get("self_adt")
        self.self_ty = raw.get("self_ty")
        self.trait = raw.get("trait")
        self.trait_ref = raw.get("trait_ref")
        self.derived = raw.get("derived", False)
        self.vis = raw.get("vis")
        self.owner = raw.get("owner")
        self.parent = raw.get("parent")
        self.from_expansion = raw.get("from_expansion", False)
        self.upvars = raw.get("upvars", [])
        self.blocks = raw["blocks"]
        self.locals = raw["locals"]
        self.arg_count = raw["arg_count"]
        self.promoted = [Body(facts, p, self) for p in raw.get("promoted", [])]
        self.parent_body = parent_body
        self.names = {}
        for d in raw["debug"]:
            if not d["place"]["proj"]:
                self.names.setdefault(d["place"]["local"], d["name"])
        self.file = self.span.rsplit(":", 1)[0] if self.span else ""
        self._build_cfg()
        self._defs = None
        self._rd = None
        self._memo = {}
        self._facts_in = None
        self._dom = None
        self._pdom = None
        self._stack = set()

    # ------------------------------------------------------------------ CFG
    def _build_cfg(self):
        n = len(self.blocks)
        self.succ = [[] for _ in range(n)]   # list of (target, edge-label)
        for i, blk in enumerate(self.blocks):
            if blk["cleanup"]:
                continue
            t = blk["term"]
            k = t["k"]
            if k == "goto":
                self.succ[i].append((t["target"], None))
            elif k == "switch":
                vals = [v for v, _ in t["targets"]]
                for v, b in t["targets"]:
                    self.succ[i].append((b, ("eq", v)))
                self.succ[i].append((t["otherwise"], ("ne", tuple(vals))))
            elif k == "call":
                if t["target"] is not None:
                    self.succ[i].append((t["target"], None))
            elif k == "assert":
                self.succ[i].append((t["target"], ("assert",)))
            elif k == "drop":
                self.succ[i].append((t["target"], None))
        # prune edges into unreachable-terminated blocks (match exhaustiveness artefacts)
        for i in range(n):
            self.succ[i] = [(b, l) for (b, l) in self.succ[i]
                            if not (self.blocks[b]["term"]["k"] == "unreachable" and not self.blocks[b]["stmts"])]
        self.pred = [[] for _ in range(n)]
        for i in range(n):
            for b, l in self.succ[i]:
                self.pred[b].append((i, l))
        # reachable set from entry
        seen = set()
        st = [0]
        while st:
            x = st.pop()
            if x in seen:
                continue
            seen.add(x)
            for b, _ in self.succ[x]:
                st.append(b)
        self.reachable = seen
        self.returns = [i for i in seen if self.blocks[i]["term"]["k"] == "return"]
        # blocks from which a normal return is reachable
        can = set(self.returns)
        st = list(self.returns)
        while st:
            x = st.pop()
            for p, _ in self.pred[x]:
                if p in seen and p not in can:
                    can.add(p)
                    st.append(p)
        self.can_return = can

    def rpo(self):
        order = []
        seen = set()

        def dfs(x):
            stack = [(x, iter([b for b, _ in self.succ[x]]))]
            seen.add(x)
            while stack:
                node, it = stack[-1]
                adv = False
                for nb in it:
                    if nb not in seen:
                        seen.add(nb)
                        stack.append((nb, iter([b for b, _ in self.succ[nb]])))
                        adv = True
                        break
                if not adv:
                    order.append(node)
                    stack.pop()
        dfs(0)
        order.reverse()
        return order

    # ------------------------------------------------------------ dominance
    def dom(self):
        """dom[b] = set of blocks dominating b (including b), over the normal CFG."""
        if self._dom is None:
            nodes = self.rpo()
            allset = set(nodes)
            dom = {b: set(allset) for b in nodes}
            dom[0] = {0}
            changed = True
            while changed:
                changed = False
                for b in nodes:
                    if b == 0:
                        continue
                    ps = [p for p, _ in self.pred[b] if p in dom]
                    new = set(allset)
                    for p in ps:
                        new &= dom[p]
                    new.add(b)
                    if new != dom[b]:
                        dom[b] = new
                        changed = True
            self._dom = dom
        return self._dom

    def pdom(self):
        """pdom[b] = blocks post-dominating b w.r.t. normal returns only.
        Blocks that cannot reach a return are absent."""
        if self._pdom is None:
            nodes = [b for b in self.rpo() if b in self.can_return]
            allset = set(nodes)
            pd = {b: set(allset) for b in nodes}
            for r in self.returns:
                pd[r] = {r}
            changed = True
            while changed:
                changed = False
                for b in reversed(nodes):
                    if b in self.returns:
                        continue
                    ss = [s for s, _ in self.succ[b] if s in pd]
                    new = set(allset)
                    for s in ss:
                        new &= pd[s]
                    new.add(b)
                    if new != pd[b]:
                        pd[b] = new
                        changed = True
            self._pdom = pd
        return self._pdom

    def dominates(self, a, b):
        """site a = (bb, idx) dominates site b"""
        (ba, ia), (bb_, ib) = a, b
        if ba == bb_:
            return ia <= ib
        d = self.dom()
        return bb_ in d and ba in d[bb_]

    def postdominates(self, a, b):
        """every path from site b to a normal return passes site a"""
        (ba, ia), (bb_, ib) = a, b
        if ba == bb_:
            return ia >= ib
        pd = self.pdom()
        return bb_ in pd and ba in pd[bb_]

    def cooccur(self, a, b):
        """a and b are executed on exactly the same returning paths"""
        return (self.dominates(a, b) and self.postdominates(b, a)) or \
               (self.dominates(b, a) and self.postdominates(a, b))

    def reaches(self, a, b):
        """can control flow from site a reach site b (normal edges)?"""
        (ba, ia), (bb_, ib) = a, b
        if ba == bb_ and ia < ib:
            return True
        seen = set()
        st = [s for s, _ in self.succ[ba]]
        while st:
            x = st.pop()
            if x in seen:
                continue
            seen.add(x)
            if x == bb_:
                return True
            st.extend(s for s, _ in self.succ[x])
        return False

    # -------------------------------------------------------- definitions
    def term_idx(self, bb):
        return len(self.blocks[bb]["stmts"])

    def defs(self):
        """local -> list of (bb, idx, kind, payload); whole-local definitions only"""
        if self._defs is None:
            d = {}
            for bi, blk in enumerate(self.blocks):
                if blk["cleanup"] or bi not in self.reachable:
                    continue
                for si, s in enumerate(blk["stmts"]):
                    if s["k"] == "assign" and not s["lhs"]["proj"]:
                        d.setdefault(s["lhs"]["local"], []).append((bi, si, "assign", s["rv"]))
                t = blk["term"]
                if t["k"] == "call" and not t["dest"]["proj"]:
                    d.setdefault(t["dest"]["local"], []).append((bi, len(blk["stmts"]), "call", t))
            self._defs = d
        return self._defs

    def _reaching(self):
        """block-entry reaching definitions for locals with more than one def"""
        if self._rd is None:
            defs = self.defs()
            multi = {l for l, ds in defs.items() if len(ds) > 1 or (1 <= l <= self.arg_count)}
            nodes = self.rpo()
            gen = {}
            for b in nodes:
                g = {}
                blk = self.blocks[b]
                for si, s in enumerate(blk["stmts"]):
                    if s["k"] == "assign" and not s["lhs"]["proj"] and s["lhs"]["local"] in multi:
                        g[s["lhs"]["local"]] = (b, si)
                t = blk["term"]
                if t["k"] == "call" and not t["dest"]["proj"] and t["dest"]["local"] in multi:
                    g[t["dest"]["local"]] = (b, len(blk["stmts"]))
                gen[b] = g
            IN = {b: {} for b in nodes}
            # params are defined at entry
            IN[0] = {l: frozenset([("entry",)]) for l in multi if 1 <= l <= self.arg_count}
            OUT = {}
            changed = True
            while changed:
                changed = False
                for b in nodes:
                    if b != 0:
                        acc = {}
                        for p, _ in self.pred[b]:
                            if p in OUT:
                                for l, s in OUT[p].items():
                                    acc[l] = acc.get(l, frozenset()) | s
                        IN[b] = acc
                    out = dict(IN[b])
                    for l, site in gen[b].items():
                        out[l] = frozenset([site])
                    if OUT.get(b) != out:
                        OUT[b] = out
                        changed = True
            self._rd = (multi, IN)
        return self._rd

    def reaching_defs(self, local, site):
        """definition sites of `local` that reach `site` = (bb, idx) (idx = statement index;
        the definition at `site` itself is not included)."""
        defs = self.defs().get(local, [])
        multi, IN = self._reaching()
        if local not in multi:
            if not defs:
                return [("entry",)] if 1 <= local <= self.arg_count else []
            return [(defs[0][0], defs[0][1])]
        bb, idx = site
        cur = IN.get(bb, {}).get(local, frozenset())
        blk = self.blocks[bb]
        for si, s in enumerate(blk["stmts"]):
            if si >= idx:
                break
            if s["k"] == "assign" and not s["lhs"]["proj"] and s["lhs"]["local"] == local:
                cur = frozenset([(bb, si)])
        return sorted(cur, key=lambda x: (0,) if x == ("entry",) else (1,) + tuple(x))

    # -------------------------------------------------------- expressions
    def expr_local(self, local, site):
        rds = self.reaching_defs(local, site)
        out = []
        for d in rds:
            if d == ("entry",):
                out.append(self._param(local))
            else:
                out.append(self._expr_def(local, d))
        if not out:
            if 1 <= local <= self.arg_count:
                return self._param(local)
            return ("undef", local)
        if len(out) == 1:
            return out[0]
        uniq = []
        for e in out:
            if e not in uniq:
                uniq.append(e)
        if len(uniq) == 1:
            return uniq[0]
        return ("phi", tuple(uniq))

    def _param(self, local):
        return ("param", local)

    def _expr_def(self, local, d):
        key = (local, d)
        if key in self._memo:
            return self._memo[key]
        if key in self._stack:
            return ("cyc", local)
        self._stack.add(key)
        try:
            bb, idx = d
            blk = self.blocks[bb]
            if idx < len(blk["stmts"]):
                e = self.expr_rvalue(blk["stmts"][idx]["rv"], (bb, idx))
            else:
                e = self.expr_call(blk["term"], (bb, idx))
        finally:
            self._stack.discard(key)
        if not _has_cyc(e):
            self._memo[key] = e
        return e

    def expr_operand(self, op, site):
        k = op["k"]
        if k in ("copy", "move"):
            return self.expr_place(op["place"], site, read=True)
        if k == "const":
            return self.expr_const(op)
        return ("constx", op.get("text", "?"))

    def expr_const(self, op):
        if "fn" in op:
            return ("fn", op.get("fn_resolved", op["fn"]))
        if "promoted" in op:
            root = self
            while root.parent_body is not None:
                root = root.parent_body
            pb = root.promoted[op["promoted"]]
            # value of _0 at the return of the promoted body
            for r in pb.returns:
                return deref_addr(pb, pb.expr_local(0, (r, pb.term_idx(r))))
            return ("constx", op["text"])
        if "val" in op:
            return ("const", op["val"])
        if "static" in op:
            return ("static", op["static"])
        if "str" in op:
            return ("str", op["str"])
        txt = op["text"]
        m = re.match(r'^(?:const )?"(.*)"$', txt, re.S)
        if m:
            return ("str", rust_unescape(m.group(1)))
        m = re.match(r"^(?:const )?'(.*)'$", txt, re.S)
        if m and op.get("ty") == "char":
            return ("const", ord(rust_unescape(m.group(1))[0]))
        if txt in ("const ()", "()"):
            return ("unit",)
        if "array_vals" in op:
            return ("array", tuple(("const", v) for v in op["array_vals"]))
        if "const_path" in op:
            return ("constp", op["const_path"])
        return ("constx", txt)

    def expr_place(self, place, site, read=False):
        """expression for a place.  read=True: the value stored there (wrapped in load if it
        is reached through a reference); read=False: the location."""
        base = self.expr_local(place["local"], site)
        through_ref = False
        for e in place["proj"]:
            k = e["k"]
            if k == "deref":
                if base[0] == "addr":
                    base = self.expr_local(base[1], base[2])
                else:
                    through_ref = True
            elif k == "field":
                if e["owner"] == "{closure}" and strip_load(base) == ("param", 1):
                    base = ("upvar", int(e["name"]))
                    through_ref = False
                elif e["owner"] == "{closure}" and strip_load(base)[0] == "closure" and int(e["name"]) < len(strip_load(base)[2]):
                    # a closure body spliced into its creator (closinl): the captured variable is the aggregate's operand
                    base = strip_load(base)[2][int(e["name"])]
                    through_ref = False
                else:
                    base = mk_field(base, e["owner"] + "::" + e["name"], as_loc=not read)
            elif k == "downcast":
                base = ("downcast", base, e["variant"])
            elif k == "index":
                base = ("elem", base, self.expr_local(e["local"], site))
            elif k == "constindex":
                base = ("elem", base, ("const", e["offset"]))
            elif k == "subslice":
                base = ("subslice", base, e["from"], e["to"], e["from_end"])
            else:
                base = ("proj?", base, e.get("text", ""))
        if read and through_ref:
            fwd = self._forwarded_store(place, site)
            if fwd is not None:
                return fwd
            return ("load", base, site)
        return base

    # ------------------------------------------------------ store-to-load forwarding through a reference
    @staticmethod
    def _place_key(place):
        return (place["local"], tuple((e["k"], e.get("owner"), e.get("name")) for e in place["proj"]))

    def _forwarded_store(self, place, site):
        """`(*r).f = x; … ; use of (*r).f`: the value read is x when that store dominates the read and nothing in between can
        have written the field (another store to it or to a part of / the whole of it, the reference reassigned, re-borrowed
        mutably or handed to a call).  Sound for `&mut` by Rust's aliasing rules: while r is live nothing else writes *r."""
        if os.environ.get("SODG_NO_FORWARD"):
            return None
        key = self._place_key(place)
        pj = key[1]
        if len(pj) < 2 or pj[0][0] != "deref" or any(k[0] != "field" for k in pj[1:]):
            return None
        if getattr(self, "_stores", None) is None:
            self._stores = {}
            for bi in self.reachable:
                for si, st in enumerate(self.blocks[bi]["stmts"]):
                    if st.get("k") == "assign" and st["lhs"]["proj"]:
                        self._stores.setdefault(self._place_key(st["lhs"]), []).append((bi, si))
            self._fwd_cache = {}
        ck = (key, site)
        if ck in self._fwd_cache:
            return self._fwd_cache[ck]
        self._fwd_cache[ck] = None
        cands = [S for S in self._stores.get(key, []) if S != site and self.dominates(S, site)]
        if not cands:
            return None
        # the closest dominating store: the one every other candidate dominates
        S = cands[0]
        for c in cands[1:]:
            if self.dominates(S, c):
                S = c
        st = self.blocks[S[0]]["stmts"][S[1]]
        if st["rv"]["k"] != "use" or self._killed_between(key, S, site):
            return None
        try:
            v = self.expr_operand(st["rv"]["op"], S)
        except RecursionError:
            return None
        self._fwd_cache[ck] = v
        return v

    def _killed_between(self, key, S, L):
        loc, pj = key

        def overlaps(p2):
            n = min(len(pj), len(p2))
            return tuple(p2[:n]) == tuple(pj[:n])

        def kills(bi, si):
            blk = self.blocks[bi]
            if si < len(blk["stmts"]):
                st = blk["stmts"][si]
                if st.get("k") != "assign":
                    return False
                l = st["lhs"]
                if l["local"] == loc and (not l["proj"] or overlaps(self._place_key(l)[1])):
                    return True
                rv = st["rv"]
                if rv["k"] in ("ref", "rawptr") and rv["place"]["local"] == loc and (rv.get("mut") or rv["k"] == "rawptr") and \
                        overlaps(self._place_key(rv["place"])[1]):
                    return True
                ops = [rv.get(k) for k in ("op", "l", "r", "x")] + list(rv.get("ops", []))
                for o in ops:
                    if isinstance(o, dict) and o.get("k") in ("move", "copy") and o["place"]["local"] == loc and not o["place"]["proj"]:
                        return True
                return False
            t = blk["term"]
            if t["k"] == "call":
                for o in t["args"]:
                    if o.get("k") in ("move", "copy") and o["place"]["local"] == loc and not o["place"]["proj"]:
                        return True
                if t["dest"]["local"] == loc:
                    return True
            return False
        # blocks on a path from S to L
        fw, st = set(), [x for x, _ in self.succ[S[0]]]
        while st:
            x = st.pop()
            if x in fw:
                continue
            fw.add(x)
            st.extend(y for y, _ in self.succ[x])
        bw, st = set(), [p for p, _ in self.pred[L[0]]]
        while st:
            x = st.pop()
            if x in bw:
                continue
            bw.add(x)
            st.extend(p for p, _ in self.pred[x])
        cyc_s = S[0] in fw          # S's block lies on a cycle
        if S[0] == L[0] and S[1] < L[1] and not cyc_s:
            return any(kills(S[0], i) for i in range(S[1] + 1, L[1]))
        between = (fw & bw) - ({S[0], L[0]} if not cyc_s else set())
        for bi in between:
            n = len(self.blocks[bi]["stmts"]) + 1
            if any(kills(bi, i) for i in range(n) if (bi, i) != S):
                return True
        if not cyc_s:
            n = len(self.blocks[S[0]]["stmts"]) + 1
            if any(kills(S[0], i) for i in range(S[1] + 1, n)):
                return True
            if any(kills(L[0], i) for i in range(0, L[1])):
                return True
        return False

    def expr_rvalue(self, rv, site):
        k = rv["k"]
        if k == "use":
            return self.expr_operand(rv["op"], site)
        if k in ("ref", "rawptr"):
            p = rv["place"]
            if not p["proj"]:
                return ("addr", p["local"], site)
            return self.expr_place(p, site, read=False)
        if k == "binop":
            return mk_binop(rv["op"], self.expr_operand(rv["l"], site), self.expr_operand(rv["r"], site))
        if k == "unop":
            return ("unop", rv["op"], self.expr_operand(rv["x"], site))
        if k == "cast":
            kind = rv["kind"]
            x = self.expr_operand(rv["op"], site)
            if "Unsize" in kind:
                return ("cast", "Unsize", x)
            if "IntToInt" in kind:
                return ("cast", "IntToInt:" + rv["ty"], x)
            if "ReifyFnPointer" in kind or "ClosureFnPointer" in kind:
                return x
            return ("cast", kind, x)
        if k == "discr":
            return ("discr", self.expr_place(rv["place"], site, read=True), tuple(v[1] for v in rv["variants"]),
                    tuple(v[0] for v in rv["variants"]))
        if k == "aggregate":
            ops = tuple(self.expr_operand(o, site) for o in rv["ops"])
            if rv["agg"] == "adt":
                fs = rv["fields"]
                return ("agg", rv["adt"], rv["variant"],
                        tuple((fs[i] if i < len(fs) else str(i), o) for i, o in enumerate(ops)))
            if rv["agg"] == "closure":
                return ("closure", rv["closure"], ops, site)
            if rv["agg"] == "tuple":
                return ("tuple", ops) if ops else ("unit",)
            return ("array", ops)
        if k == "repeat":
            return ("repeat", self.expr_operand(rv["op"], site), rv["n"])
        return ("rv?", rv.get("text", ""))

    def call_args(self, term, site):
        return tuple(self.expr_operand(a, site) for a in term["args"])

    def expr_call(self, term, site):
        c = term["callee"]
        args = self.call_args(term, site)
        if "indirect" in c:
            return ("callind", self.expr_operand(c["indirect"], site), args, site[0])
        return canon_call(self, c, args, site)

    # ------------------------------------------------------ path facts
    def bool_arms(self, op, site, depth=0, neg=False):
        """for a bool operand that is (a copy / negation of) a local assigned at several sites — constants true/false
        (matches!, `a && b` as a value) or comparisons (`let done = if grouped { n == 0 } else { false }`):
        list of (def_site, const-or-None, rvalue, negated); None if not of that shape"""
        if op["k"] not in ("copy", "move") or op["place"]["proj"] or depth > 6:
            return None
        local = op["place"]["local"]
        rds = self.reaching_defs(local, site)
        if not rds or ("entry",) in rds:
            return None
        out = []
        for d in rds:
            bb, idx = d
            blk = self.blocks[bb]
            if idx >= len(blk["stmts"]):
                if len(rds) == 1:
                    return None
                out.append((d, None, None, neg))   # a call result: nothing known on this arm
                continue
            rv = blk["stmts"][idx]["rv"]
            if rv["k"] == "use" and rv["op"]["k"] == "const" and "val" in rv["op"] and rv["op"]["ty"] == "bool":
                out.append((d, bool(rv["op"]["val"]) != neg, None, neg))
            elif rv["k"] == "use" and rv["op"]["k"] in ("copy", "move") and len(rds) == 1:
                return self.bool_arms(rv["op"], d, depth + 1, neg)
            elif rv["k"] == "unop" and rv["op"] == "Not" and len(rds) == 1:
                return self.bool_arms(rv["x"], d, depth + 1, not neg)
            elif len(rds) > 1:
                out.append((d, None, rv, neg))
            else:
                return None
        return out if len(out) > 1 else None

    def edge_facts(self, bb, label, phase1=None):
        """set of normalised facts that hold on the edge out of block bb with switch label"""
        if label is None:
            return frozenset()
        t = self.blocks[bb]["term"]
        site = (bb, self.term_idx(bb))
        if t["k"] != "switch":
            return frozenset()   # a failed Assert panics: it is not a guard in the sense of the rules
        if t["op_ty"] == "bool" and phase1 is not None:
            arms = self.bool_arms(t["op"], site)
            if arms is not None:
                truth = (label[1] != 0) if label[0] == "eq" else (0 in label[1])
                sel = []
                for dsite, cval, rv, neg in arms:
                    base = phase1.get(dsite[0], frozenset())
                    if cval is not None:
                        if cval == truth:
                            sel.append(base)
                    elif rv is not None:
                        try:
                            f = norm_cond(self.expr_rvalue(rv, dsite), truth != neg)
                        except RecursionError:
                            f = None
                        if f is not None and f[0] == "const":
                            if f[1]:
                                sel.append(base)
                        else:
                            sel.append(fs_add(base, [f]) if f is not None else base)
                    else:
                        sel.append(base)
                if sel:
                    acc = sel[0]
                    for x in sel[1:]:
                        acc = fs_join(acc, x)
                    return acc
                return frozenset()
        f = self.edge_fact(bb, label)
        out = frozenset([f]) if f is not None else frozenset()
        if phase1 is not None and f is not None and f[0] == "in" and len(f[2]) == 1:
            arms = self.variant_arms(t["op"], site)
            if arms is not None:
                want = next(iter(f[2]))
                sel = [phase1.get(s[0], frozenset()) for s, v in arms if v == want]
                if sel:
                    acc = sel[0]
                    for x in sel[1:]:
                        acc = fs_join(acc, x)
                    out = fs_add(out, acc)
        return out

    def variant_arms(self, op, site):
        """for a switch on the discriminant of a local that is assigned enum values of known variants at several sites
        (an inlined helper returning Some(..)/None, a `let r = if .. {Ok(..)} else {Err(..)}`): list of (def_site, variant)"""
        if op.get("k") not in ("copy", "move") or op["place"]["proj"]:
            return None
        ds = self.defs().get(op["place"]["local"], [])
        if len(ds) != 1 or ds[0][2] != "assign" or ds[0][3]["k"] != "discr":
            return None
        place = ds[0][3]["place"]
        if any(e["k"] != "deref" for e in place["proj"]):
            return None
        out = []
        ok = self._variant_defs(place["local"], (ds[0][0], ds[0][1]), out, 0, bool(place["proj"]))
        if ok and len(out) > 1:
            return out
        # `x?` : the discriminant tested is that of Try::branch(x); Continue <=> x was Ok/Some
        d2 = self.defs().get(place["local"], [])
        if len(d2) == 1 and d2[0][2] == "call" and d2[0][3]["callee"].get("decl") == "std::ops::Try::branch":
            arg = d2[0][3]["args"][0]
            site2 = (d2[0][0], d2[0][1])
            for _ in range(4):    # through .with_context(..) / .context(..) / .map_err(..)
                if arg.get("k") in ("copy", "move") and not arg["place"]["proj"]:
                    d3 = self.defs().get(arg["place"]["local"], [])
                    if len(d3) == 1 and d3[0][2] == "call" and d3[0][3]["callee"].get("name") in ("with_context", "context", "map_err") and d3[0][3]["args"]:
                        arg = d3[0][3]["args"][0]
                        site2 = (d3[0][0], d3[0][1])
                        continue
                break
            if arg.get("k") in ("copy", "move") and not arg["place"]["proj"]:
                out = []
                if self._variant_defs(arg["place"]["local"], site2, out, 0, False) and len(out) > 1:
                    m = {"Ok": "Continue", "Some": "Continue", "Err": "Break", "None": "Break"}
                    return [(s0, m.get(v, v)) for s0, v in out]
        return None

    def _variant_defs(self, local, site, out, depth, through_ref):
        if depth > 6:
            return False
        rds = self.reaching_defs(local, site)
        if not rds or ("entry",) in rds:
            return False
        for d in rds:
            bb, idx = d
            blk = self.blocks[bb]
            if idx >= len(blk["stmts"]):
                return False
            rv = blk["stmts"][idx]["rv"]
            if rv["k"] == "aggregate" and rv.get("agg") == "adt":
                out.append((d, rv["variant"]))
            elif rv["k"] == "use" and rv["op"].get("k") in ("copy", "move") and not rv["op"]["place"]["proj"]:
                if not self._variant_defs(rv["op"]["place"]["local"], d, out, depth + 1, through_ref):
                    return False
            elif rv["k"] == "ref" and not rv["place"]["proj"] and through_ref:
                if not self._variant_defs(rv["place"]["local"], d, out, depth + 1, False):
                    return False
            else:
                return False
        return True

    def origins(self, local, site, depth=0, seen=None):
        """where the value a local holds at `site` was produced, looking through plain copies/moves between locals:
        list of (def_site, kind) with kind "agg" (an aggregate statement), "call" (a call result), "other", "entry" """
        out = []
        seen = set() if seen is None else seen
        for d in self.reaching_defs(local, site) or [("entry",)]:
            if d == ("entry",):
                out.append((None, "entry"))
                continue
            d = tuple(d)
            if (local, d) in seen:
                continue
            seen.add((local, d))
            bb, idx = d
            blk = self.blocks[bb]
            if idx >= len(blk["stmts"]):
                out.append((d, "call"))
                continue
            rv = blk["stmts"][idx]["rv"]
            if rv["k"] == "aggregate":
                out.append((d, "agg"))
            elif rv["k"] == "use" and rv["op"].get("k") in ("copy", "move") and not rv["op"]["place"]["proj"] and depth < 12:
                out += self.origins(rv["op"]["place"]["local"], d, depth + 1, seen)
            else:
                out.append((d, "other"))
        return out

    def call_edge_facts(self, bb, phase1=None):
        """facts that hold after a call returns: for `iter.find(pred)` the predicate holds of the item found (a statement
        about that item, vacuous when nothing is found)"""
        t = self.blocks[bb]["term"]
        if t["k"] == "call" and t["callee"].get("name") in ("unwrap", "expect") and t["args"] and phase1 is not None and \
                t["callee"].get("decl", "").startswith(("std::option::Option::<T>::", "std::result::Result::<T, E>::")):
            # x.unwrap() returned: x was Some/Ok, so whatever held where that Some/Ok was built holds
            op = t["args"][0]
            if op.get("k") in ("copy", "move") and not op["place"]["proj"]:
                out = []
                if self._variant_defs(op["place"]["local"], (bb, self.term_idx(bb)), out, 0, False) and len(out) > 1:
                    sel = [phase1.get(s[0], frozenset()) for s, v in out if v in ("Some", "Ok")]
                    if sel:
                        acc = sel[0]
                        for x in sel[1:]:
                            acc = fs_join(acc, x)
                        return acc
            return frozenset()
        if t["k"] == "call" and t["callee"].get("decl") == "std::iter::Iterator::find_map" and len(t["args"]) == 2:
            site = (bb, self.term_idx(bb))
            args = self.call_args(t, site)
            cl = strip_load(deref_addr(self, args[1]))
            ts = closure_then_some(self, cl)
            if ts is None:
                return frozenset()
            cond, _, cb, csite = ts
            item = ("item", deref_addr(self, args[0]), ("find", bb))
            mapping = {("param", 2): item}
            for ui, uop in enumerate(cl[2]):
                mapping[("upvar", ui)] = self.expr_local(uop[1], uop[2]) if uop[0] == "addr" else uop
            if isinstance(cond, tuple) and cond and cond[0] == "factsat":
                # the Some(..) is built at one site of the closure: what holds there holds of the item found
                return frozenset(subst(f, mapping) for f in cb.facts_at(csite))
            # `a && b` as a value: a flag assigned in guarded places
            fs = set(cb.facts_at(csite))
            ds = None
            tt = cb.blocks[csite[0]]["term"]
            arms = cb.bool_arms(tt["args"][0], csite) if tt["args"][0].get("k") in ("copy", "move") else None
            if arms is not None:
                p1 = cb.facts_in()
                sel = []
                for dsite, cval, rv, neg in arms:
                    base = p1.get(dsite[0], frozenset())
                    if cval is True:
                        sel.append(base)
                    elif cval is None and rv is not None:
                        f = norm_cond(cb.expr_rvalue(rv, dsite), not neg)
                        sel.append(fs_add(base, [f]))
                if sel:
                    acc = sel[0]
                    for x in sel[1:]:
                        acc = fs_join(acc, x)
                    fs |= set(acc)
            else:
                fs.add(norm_cond(cond, True))
            return frozenset(subst(f, mapping) for f in fs)
        if t["k"] != "call" or t["callee"].get("decl") != "std::iter::Iterator::find" or len(t["args"]) != 2:
            return frozenset()
        site = (bb, self.term_idx(bb))
        try:
            args = self.call_args(t, site)
            it = deref_addr(self, args[0])
            cl = strip_load(deref_addr(self, args[1]))
            if cl[0] != "closure":
                return frozenset()
            cb = self.facts.bodies.get(cl[1])
            if cb is None:
                return frozenset()
            item = ("item", it, ("find", bb))
            mapping = {("param", 2): item}
            for ui, uop in enumerate(cl[2]):
                ue = uop
                if ue[0] == "addr":
                    ue = self.expr_local(ue[1], ue[2])
                mapping[("upvar", ui)] = ue
            summ = pred_summary(cb)
            if not summ:
                return frozenset()
            acc = None
            for conj in summ:
                fs = frozenset(unload_subst(subst(f, mapping)) for f in conj)
                acc = fs if acc is None else (acc & fs)
            return acc or frozenset()
        except RecursionError:
            return frozenset()

    def edge_fact(self, bb, label):
        """normalised fact that holds on the edge out of block bb with switch label"""
        if label is None:
            return None
        t = self.blocks[bb]["term"]
        site = (bb, self.term_idx(bb))
        if t["k"] != "switch":
            return None
        e = self.expr_operand(t["op"], site)
        if t["op_ty"] == "bool":
            f = norm_cond(e, (label[1] != 0) if label[0] == "eq" else (0 in label[1]))  # otherwise of [0:..] means true
            if f[0] == "bool" and strip_load(f[1])[0] == "phi":
                return None    # a flag assigned in several places: resolved by bool_arms in the second pass, useless as such
            return f
        if e[0] == "discr":
            names = dict(zip(e[3], e[2]))
            subj = ("discr", strip_load(e[1]))
            allv = frozenset(e[2])
            if label[0] == "eq":
                return ("in", subj, frozenset([names.get(label[1], label[1])]))
            rest = allv - frozenset(names.get(v, v) for v in label[1])
            return ("in", subj, rest)
        if label[0] == "eq":
            return ("in", e, frozenset([label[1]]))
        return ("notin", e, frozenset(label[1]))

    def _facts_fix(self, phase1):
        nodes = self.rpo()
        TOP = None
        IN = {b: TOP for b in nodes}
        IN[0] = frozenset()
        changed = True
        efc = {}

        def ef(p, l):
            k = (p, l)
            if k not in efc:
                try:
                    if l is None:
                        efc[k] = self.call_edge_facts(p, phase1) if phase1 is not None else frozenset()
                    else:
                        efc[k] = self.edge_facts(p, l, phase1)
                except RecursionError:
                    efc[k] = frozenset()
            return efc[k]
        while changed:
            changed = False
            for b in nodes:
                if b == 0:
                    continue
                acc = TOP
                for p, l in self.pred[b]:
                    if p not in IN or IN[p] is TOP:
                        continue
                    s = fs_add(IN[p], ef(p, l))
                    acc = s if acc is TOP else fs_join(acc, s)
                if acc is not TOP and acc != IN[b]:
                    IN[b] = acc
                    changed = True
        return {b: (IN[b] if IN[b] is not None else frozenset()) for b in nodes}

    def facts_in(self):
        """must-hold facts at the entry of each block (forward, intersection at joins).  Two phases:
        the second one resolves switches on bool locals that were assigned constants in several
        guarded places (matches!, `a && b` as a value) using the first phase's facts at those places."""
        if self._facts_in is None:
            p1 = self._facts_fix(None)
            self._facts_in = self._facts_fix(p1)
        return self._facts_in

    def facts_at(self, site):
        return self.facts_in().get(site[0], frozenset())

    def early_exits(self, hdr):
        """for the loop whose header block `hdr` ends in the iterator's `next` call: edges that leave the loop body other than
        through the exhausted iterator, on a path that is not error propagation (`?`, `return Err(..)`) — i.e. `break` and
        early `return` of a success value.  Returns [(from_block, to_block)]."""
        t = self.blocks[hdr]["term"]
        if t["k"] != "call" or t.get("target") is None:
            return []
        sw = t["target"]
        st = self.blocks[sw]["term"]
        if st["k"] != "switch":
            return []
        some = none = None
        for val, tb in st["targets"]:
            if val == 1:
                some = tb
            elif val == 0:
                none = tb
        if some is None:
            some = st.get("otherwise")
        if some is None:
            return []

        def reach(start, stop):
            seen = set()
            stack = [start]
            while stack:
                x = stack.pop()
                if x in seen or x == stop:
                    continue
                seen.add(x)
                stack.extend(y for y, _ in self.succ[x])
            return seen
        rs = reach(some, hdr)
        # blocks of the body proper: those from which the header can be reached again
        back = set()
        changed = True
        while changed:
            changed = False
            for x in rs:
                if x not in back and any(y == hdr or y in back for y, _ in self.succ[x]):
                    back.add(x)
                    changed = True
        out = []
        for bq in back:
            for x, _ in self.succ[bq]:
                if x == hdr or x in back or x not in rs:
                    continue
                # x leaves the loop: is it error propagation / a panic?
                err = False
                seen = set()
                stack = [x]
                steps = 0
                while stack and steps < 60:
                    y = stack.pop()
                    if y in seen:
                        continue
                    seen.add(y)
                    steps += 1
                    blk = self.blocks[y]
                    ty = blk["term"]
                    if ty["k"] == "call" and ty["callee"].get("name") in ("from_residual",):
                        err = True
                        break
                    if any(s2.get("k") == "assign" and s2["rv"]["k"] == "aggregate" and s2["rv"].get("variant") in ("Err",) and
                           s2["lhs"]["local"] == 0 for s2 in blk["stmts"]):
                        err = True
                        break
                    if ty["k"] in ("unreachable",) or (ty["k"] == "call" and ty.get("target") is None):
                        err = True       # diverges
                        break
                    if ty["k"] == "return":
                        break
                    if none is not None and y == none:
                        break
                    stack.extend(z for z, _ in self.succ[y] if z not in back and z != hdr)
                if not err and x in self.can_return:
                    out.append((bq, x))
        return out

    def presence_assertions(self):
        """facts `discr(x) ∈ {Some}` / `{Ok}` contributed by a switch whose other outcomes never reach a normal return
        (`.unwrap()` spelled as a match/map: `let Some(v) = m.get(k) else { panic!() }`, `m.get_mut(k).map(f).unwrap()`):
        they assert a precondition, they do not select between two behaviours"""
        if getattr(self, "_passert", None) is None:
            can = set()
            for b in self.reachable:
                if self.blocks[b]["term"]["k"] == "return":
                    can.add(b)
            # an edge N -> J is doomed when N leaves a None/Err in a local that J immediately unwraps
            doomed = set()
            for n in self.reachable:
                if len(self.succ[n]) != 1:
                    continue
                j = self.succ[n][0][0]
                tj = self.blocks[j]["term"]
                if tj["k"] != "call" or tj["callee"].get("name") not in ("unwrap", "expect") or not tj["args"]:
                    continue
                op = tj["args"][0]
                if op.get("k") not in ("copy", "move") or op["place"]["proj"]:
                    continue
                dl = op["place"]["local"]
                if any(st.get("k") == "assign" and st["lhs"]["local"] == dl for st in self.blocks[j]["stmts"]):
                    continue
                last = None
                for st in self.blocks[n]["stmts"]:
                    if st.get("k") == "assign" and st["lhs"]["local"] == dl and not st["lhs"]["proj"]:
                        last = st
                if last is not None and last["rv"]["k"] == "aggregate" and last["rv"].get("variant") in ("None", "Err"):
                    doomed.add((n, j))
            changed = True
            while changed:
                changed = False
                for b in self.reachable:
                    if b not in can and any(s in can and (b, s) not in doomed for s, _ in self.succ[b]):
                        can.add(b)
                        changed = True
            out = set()
            allf = {}
            for b in self.reachable:
                t = self.blocks[b]["term"]
                if t["k"] != "switch":
                    continue
                live = [(s, l) for s, l in self.succ[b] if s in can]
                if len(live) == 1 and len(self.succ[b]) > 1:
                    try:
                        fs = self.edge_facts(b, live[0][1], self.facts_in())
                    except RecursionError:
                        fs = frozenset()
                    base = self.facts_in().get(b, frozenset())
                    for f in fs:
                        if f not in base:
                            allf.setdefault(f, []).append(b)
                        if f[0] == "in" and f[2] in (frozenset(["Some"]), frozenset(["Ok"])) and strip_load(f[1])[0] == "discr":
                            out.add(f)
            self._passert = out
            self._assertions = allf
        return self._passert

    def compiled_assertions(self):
        """[(fact, block)] of the always-compiled assertions of the body (`assert!`, `if !c { panic!() }`, `let .. else { panic }`):
        asserting switches that are not inside a build-configuration switch (`debug_assert!` tests `cfg!(debug_assertions)` first)"""
        self.presence_assertions()
        d = self.dom()
        cfg_blocks = set()
        for bi in self.reachable:
            t = self.blocks[bi]["term"]
            if t["k"] == "switch" and t.get("exp"):
                op = t["op"]
                if op.get("k") in ("move", "copy") and not op["place"]["proj"]:
                    for st in reversed(self.blocks[bi]["stmts"]):
                        if st.get("k") == "assign" and st["lhs"]["local"] == op["place"]["local"]:
                            if not st["lhs"]["proj"] and st["rv"]["k"] == "use":
                                op = st["rv"]["op"]
                            break
                if op.get("k") == "const":
                    cfg_blocks.add(bi)
        out = []
        for f, bs in self._assertions.items():
            for b in bs:
                if not any(cb in d.get(b, ()) and cb != b for cb in cfg_blocks):
                    out.append((f, b))
        return out

    def asserted(self, f, site):
        """fact f at `site` comes from a switch, dominating the site, whose other outcomes never reach a normal return
        (`assert!(c)`, `debug_assert!`, `if !c { panic!() }`, `let .. else { unreachable!() }`): the call either panics or c
        holds — c is not a condition that selects between doing and silently not doing something, and a later test of the same
        c is always true"""
        self.presence_assertions()
        d = self.dom()
        return any(site[0] in d and (b in d[site[0]]) and b != site[0] for b in self._assertions.get(f, ()))

    # ------------------------------------------------------ events
    def sites(self):
        """iterate (site, kind, payload) over reachable, non-cleanup code"""
        for bi in sorted(self.reachable):
            blk = self.blocks[bi]
            for si, s in enumerate(blk["stmts"]):
                yield (bi, si), "stmt", s
            yield (bi, len(blk["stmts"])), "term", blk["term"]

    def calls(self):
        for site, kind, t in self.sites():
            if kind == "term" and t["k"] == "call":
                yield site, t

    def writes(self):
        """memory/field writes: assignments whose left side has a projection"""
        for site, kind, s in self.sites():
            if kind == "stmt" and s["k"] == "assign" and s["lhs"]["proj"]:
                yield site, s

    def line(self, site):
        bb, idx = site
        blk = self.blocks[bb]
        if idx < len(blk["stmts"]):
            return blk["stmts"][idx].get("line")
        return blk["term"].get("line")

    def where(self, site=None):
        if site is None:
            return self.span
        bb, idx = site
        blk = self.blocks[bb]
        node = blk["stmts"][idx] if idx < len(blk["stmts"]) else blk["term"]
        return "%s:%s" % (node.get("ifile") or self.file, node.get("line"))

    def local_name(self, l):
        return self.names.get(l, "_%d" % l)


def rust_unescape(t):
    def rep(m):
        c = m.group(1)
        if c[0] == "u":
            return chr(int(c[2:-1], 16))
        return {"n": "\n", "t": "\t", "r": "\r", "0": "\0", "\\": "\\", '"': '"', "'": "'"}.get(c, c)
    return re.sub(r"\\(u\{[0-9a-fA-F]+\}|.)", rep, t)


def _is_deref_only(place):
    return all(e["k"] == "deref" for e in place["proj"])


def _has_cyc(e):
    if isinstance(e, tuple):
        if e and e[0] == "cyc":
            return True
        return any(_has_cyc(x) for x in e)
    return False


def strip_load(e):
    while isinstance(e, tuple) and e and e[0] == "load":
        e = e[1]
    return e


def strip_sites(e):
    """remove load wrappers and call/iteration site tags: compares locations/values structurally"""
    if not isinstance(e, tuple) or not e:
        return e
    if e[0] == "load":
        return strip_sites(e[1])
    if e[0] == "addr":
        return ("addr", e[1])
    if e[0] == "call":
        return ("call", e[1], tuple(strip_sites(a) for a in e[2]))
    if e[0] in ("item", "next"):
        return (e[0], strip_sites(e[1]))
    return tuple(strip_sites(x) for x in e)


def mk_field(base, name, as_loc=False):
    # tuple field of a checked binop
    if base[0] == "binop" and base[1].endswith("WithOverflow"):
        if name.endswith("::0"):
            return mk_binop(base[1][:-len("WithOverflow")], base[2], base[3])
        return ("ovf", base)
    if base[0] == "tuple" and name.startswith("(tuple)::"):
        i = int(name.split("::")[1])
        if i < len(base[1]):
            return base[1][i]
    if base[0] == "downcast":
        inner, variant = base[1], base[2]
        idx = name.rsplit("::", 1)[1]
        return mk_vfield(inner, variant, idx)
    if base[0] == "agg" and not as_loc:
        short = name.rsplit("::", 1)[1]
        for fname, fe in base[3]:
            if fname == short:
                return fe
    return ("field", base, name)


def mk_vfield(inner, variant, idx):
    core = strip_load(inner)
    if variant in TRANSPARENT_PAYLOAD and idx == "0":
        return payload(core)
    if core[0] == "agg" and core[2] == variant:
        for fname, fe in core[3]:
            if fname == idx:
                return fe
    return ("vfield", core, variant, idx)


def mk_binop(op, l, r):
    # arithmetic on two literals (`HEX_SIZE - 1`): the value itself
    if op in ("Add", "Sub", "Mul") and l[0] == "const" and r[0] == "const" and len(l) == 2 and len(r) == 2 and \
            type(l[1]) is int and type(r[1]) is int:
        v = l[1] + r[1] if op == "Add" else l[1] - r[1] if op == "Sub" else l[1] * r[1]
        if 0 <= v < 2 ** 63:
            return ("const", v)
    return ("binop", op, l, r)


# ---------------------------------------------------------------- call canonicalisation
def callee_name(c):
    return c.get("path", "?")


def path_is(c, *suffixes):
    p = c.get("path", "")
    d = c.get("decl", "")
    return any(p.endswith(s) or d.endswith(s) for s in suffixes)


UNWRAPS = ("Option::<T>::unwrap", "Option::<T>::expect", "Result::<T, E>::unwrap", "Result::<T, E>::expect",
           "Option::<T>::unwrap_unchecked")
CONTEXTS = ("anyhow::Context::with_context", "anyhow::Context::context")
TRANSPARENT = ("std::ops::Deref::deref", "std::ops::DerefMut::deref_mut", "std::convert::AsRef::as_ref",
               "std::borrow::Borrow::borrow", "std::string::String::as_str", "std::vec::Vec::<T, A>::as_slice",
               "std::convert::Into::into", "std::convert::From::from")


def canon_call(body, c, args, site):
    path = c.get("path", "?")
    decl = c.get("decl", "")
    krate = c.get("krate", "")
    name = c.get("name", "")
    a0 = deref_addr(body, args[0]) if args else None
    # Option/Result unwrapping and anyhow context are transparent for the payload
    if decl.startswith("std::option::Option::<T>::") and name in ("unwrap", "expect", "unwrap_unchecked"):
        return payload(a0)
    if decl.startswith("std::result::Result::<T, E>::") and name in ("unwrap", "expect"):
        return payload(a0)
    if decl in CONTEXTS or (krate == "anyhow" and name in ("with_context", "context")):
        return ("ctx", a0)
    if decl == "std::ops::Try::branch":
        return ("try", a0)
    if decl in ("std::ops::Deref::deref", "std::ops::DerefMut::deref_mut", "std::convert::AsRef::as_ref",
                "std::borrow::Borrow::borrow"):
        return a0
    if path in ("std::string::String::as_str", "std::vec::Vec::<T, A>::as_slice", "std::string::String::as_bytes"):
        return a0 if path != "std::string::String::as_bytes" else ("call", path, (a0,), site[0])
    # the length of an array viewed as a slice is its type's length: `a.len()` for `a: [char; 8]`
    if name == "len" and len(args) == 1 and path.endswith("[T]>::len"):
        x = strip_load(a0) if a0 is not None else None
        for _ in range(3):
            if x is not None and x[0] == "cast" and x[1] == "Unsize":
                x = strip_load(x[2])
        if x is not None and x[0] == "addr" and isinstance(x[1], int) and x[1] < len(body.locals):
            m = re.match(r"^\[.*; (\d+)\]$", str(body.locals[x[1]].get("ty", "")).strip())
            if m:
                return ("const", int(m.group(1)))
    # element access
    if krate == "emap" and name in ("get", "get_mut"):
        return ("opt", ("elem", a0, deref_addr(body, args[1])))
    if decl in ("std::ops::Index::index", "std::ops::IndexMut::index_mut"):
        key = deref_addr(body, args[1])
        if c.get("local"):
            return ("call", path, (a0, key), site[0])
        if key[0] == "agg" and key[1].startswith("Range"):
            return ("slice", a0, key)
        return ("elem", a0, key)
    # iteration
    if decl == "std::iter::IntoIterator::into_iter":
        if a0[0] in ("iter", "adapt"):
            return a0
        return ("iter", a0, "into_iter")
    if name in ("iter", "iter_mut") and krate in ("emap", "micromap", "microstack", "core", "alloc", "std"):
        return ("iter", a0, name)
    if krate == "microstack" and name == "into_iter" and len(args) == 1:
        return ("iter", a0, "iter")
    if name in ("keys", "values", "drain", "chars", "split", "bytes", "char_indices", "into_keys", "into_values", "values_mut") and len(args) >= 1 and \
            krate in ("emap", "micromap", "microstack", "core", "alloc", "std"):
        return ("iter", a0, name) if len(args) == 1 else ("iter", a0, name, tuple(args[1:]))
    if decl == "std::iter::Iterator::next":
        return ("next", a0, site[0])
    if decl == "std::iter::Iterator::find" and len(args) == 2:
        return ("find", a0, deref_addr(body, args[1]), site[0])
    if decl == "std::iter::Iterator::find_map" and len(args) == 2:
        # find_map(|x| cond(x).then_some(value(x)))  ==  find(cond).map(value)
        cl = deref_addr(body, args[1])
        ts = closure_then_some(body, cl)
        if ts is not None:
            item = ("item", a0, ("find", site[0]))
            return ("optmap", unload(subst(ts[1], {("param", 2): item})), ("find", a0, cl, site[0]))
    if decl.startswith("std::option::Option::<T>::") and name == "unwrap_or" and len(args) == 2:
        return ("phi", (payload(a0), deref_addr(body, args[1])))
    if decl.startswith("std::option::Option::<T>::") and name == "map_or" and len(args) == 3:
        # opt.map_or(default, f): f(payload) if Some, default otherwise
        res = closure_result(body, deref_addr(body, args[2]), payload(strip_load(a0)))
        if res is not None:
            return ("phi", (deref_addr(body, args[1]), res))
    if decl.startswith("std::option::Option::<T>::") and name == "unwrap_or_else" and len(args) == 2:
        res = closure_result0(body, deref_addr(body, args[1]))
        if res is not None:
            return ("phi", (payload(a0), res))
    if decl.startswith("std::option::Option::<") and name in ("copied", "cloned") and len(args) == 1:
        return a0    # Option<&T> -> Option<T>: the same option as far as provenance goes (references are transparent)
    if (decl.startswith("std::option::Option::<T>::") or decl.startswith("std::result::Result::<T, E>::")) and \
            name in ("map", "and_then") and len(args) == 2:
        inner = strip_load(a0)
        cl = deref_addr(body, args[1])
        proj = closure_projection(body, cl) if name == "map" else None
        if proj is not None:
            return ("optmap", subst(proj, {("param", 2): payload(inner)}), inner)
        res = closure_result(body, cl, payload(inner))
        if res is not None:
            return ("optmap", res, inner) if name == "map" else ("andthen", res, inner)
    if decl.startswith("std::iter::Iterator::") or decl.startswith("itertools::Itertools::"):
        if name in ("filter", "map", "enumerate", "skip", "copied", "cloned", "sorted", "sorted_by_key",
                    "sorted_by", "sorted_unstable", "rev", "take", "step_by", "filter_map", "skip_while",
                    "take_while", "peekable", "chain", "zip", "inspect", "flat_map", "flatten"):
            return ("adapt", name, a0, tuple(args[1:]), site[0])
    return ("call", path, tuple([a0] + list(args[1:])) if args else (), site[0])


def deref_addr(body, e):
    """value behind the address of a plain local (refs are transparent)"""
    if isinstance(e, tuple) and e and e[0] == "addr":
        return body.expr_local(e[1], e[2])
    return e


def closure_then_some(body, cl):
    """for a closure `|x| cond.then_some(value)`: (cond expression, value expression) over ("param", 2) / upvars"""
    cl = strip_load(cl)
    if cl[0] != "closure":
        return None
    cb = body.facts.bodies.get(cl[1])
    if cb is None or cb.arg_count != 2:
        return None
    ds = cb.defs().get(0, [])
    # the same written out (or desugared): exactly one place builds Some(value), every other result is None
    somes = [d for d in ds if d[2] == "assign" and d[3]["k"] == "aggregate" and d[3].get("adt") == "Option" and d[3].get("variant") == "Some"]
    nones = [d for d in ds if d[2] == "assign" and d[3]["k"] == "aggregate" and d[3].get("adt") == "Option" and d[3].get("variant") == "None"]
    if len(somes) == 1 and len(somes) + len(nones) == len(ds):
        d = somes[0]
        site = (d[0], d[1])
        val = cb.expr_rvalue(d[3], site)
        return (("factsat", site), dict(val[3]).get("0"), cb, site)
    if len(ds) != 1 or ds[0][2] != "call":
        return None
    t = ds[0][3]
    if t["callee"].get("name") != "then_some" or len(t["args"]) != 2:
        return None
    site = (ds[0][0], ds[0][1])
    args = cb.call_args(t, site)
    return (args[0], args[1], cb, site)


def closure_result(body, cl, arg):
    """value a closure returns when applied to `arg` (captures taken from the enclosing body); None if not computable"""
    cl = strip_load(cl)
    if cl[0] != "closure":
        return None
    cb = body.facts.bodies.get(cl[1])
    if cb is None or cb.arg_count != 2 or len(cb.returns) != 1:
        return None
    r = cb.returns[0]
    try:
        e = cb.expr_local(0, (r, cb.term_idx(r)))
    except RecursionError:
        return None
    mapping = {("param", 2): arg}
    for ui, uop in enumerate(cl[2]):
        mapping[("upvar", ui)] = body.expr_local(uop[1], uop[2]) if uop[0] == "addr" else uop
    return resimplify(unload(subst(e, mapping)))


def closure_result0(body, cl):
    """value a parameterless closure returns (captures taken from the enclosing body); None if not computable"""
    cl = strip_load(cl)
    if cl[0] != "closure":
        return None
    cb = body.facts.bodies.get(cl[1])
    if cb is None or cb.arg_count != 1 or len(cb.returns) != 1:
        return None
    r = cb.returns[0]
    try:
        e = cb.expr_local(0, (r, cb.term_idx(r)))
    except RecursionError:
        return None
    mapping = {}
    for ui, uop in enumerate(cl[2]):
        mapping[("upvar", ui)] = body.expr_local(uop[1], uop[2]) if uop[0] == "addr" else uop
    return resimplify(unload(subst(e, mapping)))


def resimplify(e):
    """re-apply the field/payload simplifications after a substitution exposed aggregates"""
    if not isinstance(e, tuple) or not e or isinstance(e, frozenset):
        return e
    e = tuple(resimplify(x) if isinstance(x, tuple) else x for x in e)
    if e[0] == "field" and isinstance(e[1], tuple) and e[1] and e[1][0] in ("tuple", "agg", "downcast", "binop"):
        return mk_field(e[1], e[2])
    if e[0] == "vfield" and isinstance(e[1], tuple):
        return mk_vfield(e[1], e[2], e[3])
    if e[0] == "some" and isinstance(e[1], tuple) and e[1] and e[1][0] in ("agg", "opt", "optmap", "andthen", "find", "phi"):
        return payload(e[1])
    return e


def closure_projection(body, cl):
    """for a closure that merely projects its argument (|(v, _)| v, |e| *e.1): its result as an expression over ("param", 2)"""
    cl = strip_load(cl)
    if cl[0] != "closure":
        return None
    cb = body.facts.bodies.get(cl[1])
    if cb is None or cb.arg_count != 2 or len(cb.returns) != 1 or any(True for _ in cb.calls()):
        return None
    r = cb.returns[0]
    e = unload(cb.expr_local(0, (r, cb.term_idx(r))))
    ok = all(x[0] in ("param", "field", "tuple") for x in walk(e)) and mentions(e, lambda x: x == ("param", 2)) and \
        not mentions(e, lambda x: x[0] == "param" and x[1] != 2)
    return e if ok else None


def unload(e):
    """drop load wrappers everywhere (locations and their values are identified)"""
    if not isinstance(e, tuple) or not e:
        return e
    if isinstance(e, frozenset):
        return e
    if e[0] == "load":
        return unload(e[1])
    return tuple(unload(x) if isinstance(x, tuple) else x for x in e)


def unload_subst(f):
    """after substituting an item for a closure parameter: loads of the parameter's fields are loads of the item's"""
    return f


def pred_summary(cb):
    """for a bool-returning closure body: list of fact sets; the closure returns true iff one of
    the conjunctions holds (a && b in MIR is a diamond writing the return place)."""
    out = []
    for d in cb.defs().get(0, []):
        bb, idx, kind, pl = d
        site = (bb, idx)
        facts = set(cb.facts_at(site))
        if kind == "assign":
            # `!matches!(x, ..)` / `a && b` as a value: the returned bool is (the negation of) a flag set on several arms
            arms = None
            rv = pl
            if rv["k"] == "use":
                arms = cb.bool_arms(rv["op"], site)
            elif rv["k"] == "unop" and rv["op"] == "Not":
                arms = cb.bool_arms(rv["x"], site, neg=True)
            if arms is not None:
                for dsite, cval, arv, neg in arms:
                    afacts = set(cb.facts_at(dsite)) | facts
                    if cval is not None:
                        if cval:
                            out.append(frozenset(afacts))
                    elif arv is not None:
                        f = norm_cond(cb.expr_rvalue(arv, dsite), not neg)
                        if f[0] == "const":
                            if f[1]:
                                out.append(frozenset(afacts))
                        else:
                            afacts.add(f)
                            out.append(frozenset(afacts))
                    else:
                        out.append(frozenset(afacts | {("unknown", dsite)}))
                continue
            e = cb.expr_rvalue(pl, site)
        else:
            e = cb.expr_call(pl, site)
        if e[0] == "const":
            if e[1]:
                out.append(frozenset(facts))
            continue
        f = norm_cond(e, True)
        facts.add(f)
        out.append(frozenset(facts))
    return out


def some_summary(cb):
    """for an Option-returning closure body (filter_map / find_map argument): list of fact sets, the closure returns Some(..)
    iff one of the conjunctions holds; None if the closure's result is not of a recognised shape"""
    out = []
    for d in cb.defs().get(0, []):
        bb, idx, kind, pl = d
        site = (bb, idx)
        facts = set(cb.facts_at(site))
        if kind == "assign":
            rv = pl
            if rv["k"] == "aggregate" and rv.get("adt") == "Option":
                if rv.get("variant") == "Some":
                    out.append(frozenset(facts))
                continue
            return None
        t = pl
        c = t["callee"]
        if c.get("name") == "then_some" and len(t["args"]) == 2:
            arms = cb.bool_arms(t["args"][0], site) if t["args"][0].get("k") in ("copy", "move") else None
            if arms is not None:
                for dsite, cval, arv, neg in arms:
                    afacts = set(cb.facts_at(dsite)) | facts
                    if cval is not None:
                        if cval:
                            out.append(frozenset(afacts))
                    elif arv is not None:
                        f = norm_cond(cb.expr_rvalue(arv, dsite), not neg)
                        if f[0] == "const":
                            if f[1]:
                                out.append(frozenset(afacts))
                        else:
                            out.append(frozenset(afacts | {f}))
                    else:
                        return None
            else:
                cond = cb.call_args(t, site)[0]
                f = norm_cond(cond, True)
                out.append(frozenset(facts | {f}))
            continue
        return None
    return out


def payload(e):
    core = strip_load(e)
    if core[0] == "find":
        return ("item", core[1], ("find", core[3]))
    if core[0] == "optmap":
        return core[1]
    if core[0] == "andthen":
        return payload(core[1])
    if core[0] == "phi":
        # the success payload of a value that is one of several Option/Result values: only the Some/Ok arms carry one
        arms = []
        for a in core[1]:
            a0 = strip_load(a)
            if a0[0] == "agg" and a0[2] in ("None", "Err", "Break"):
                continue
            if a0[0] == "call" and a0[1].split("::")[-1] == "from_residual":
                continue
            p = payload(a0)
            if p not in arms:
                arms.append(p)
        if len(arms) == 1:
            return arms[0]
        if arms:
            return ("phi", tuple(arms))
    if core[0] == "agg" and core[2] in ("Some", "Ok", "Continue") and len(core[3]) == 1:
        return core[3][0][1]
    if core[0] == "opt":
        return core[1]
    if core[0] == "ctx":
        return payload(core[1])
    if core[0] == "try":
        return payload(core[1])
    if core[0] == "next":
        return ("item", core[1], core[2])
    return ("some", core)


# ---------------------------------------------------------------- condition normalisation
CMP = {"Eq": "==", "Ne": "!=", "Lt": "<", "Le": "<=", "Gt": ">", "Ge": ">="}
NEG = {"==": "!=", "!=": "==", "<": ">=", "<=": ">", ">": "<=", ">=": "<"}
SWAP = {"==": "==", "!=": "!=", "<": ">", "<=": ">=", ">": "<", ">=": "<="}


def as_variant(e):
    """enum constant (unit variant aggregate) -> (adt, variant)"""
    e = strip_load(e)
    if e[0] == "agg" and not e[3]:
        return (e[1], e[2])
    return None


def norm_cond(e, truth):
    """normalise a boolean expression with a truth value into a fact:
       ("in", x, S) | ("notin", x, S) | ("cmp", op, a, b) | ("bool", e, truth)"""
    e0 = e
    if e[0] == "load":
        pass
    if e[0] == "unop" and e[1] == "Not":
        return norm_cond(e[2], not truth)
    op = None
    if e[0] == "binop" and e[1] in CMP:
        op, l, r = CMP[e[1]], e[2], e[3]
    elif e[0] == "call" and len(e[2]) == 2 and e[1].split("::")[-1] == "eq" and "PartialEq" in e[1]:
        op, l, r = "==", e[2][0], e[2][1]
    elif e[0] == "call" and len(e[2]) == 2 and e[1].split("::")[-1] == "ne" and "PartialEq" in e[1]:
        op, l, r = "!=", e[2][0], e[2][1]
    elif e[0] == "call" and len(e[2]) == 2 and e[1].split("::")[-1] in ("lt", "le", "gt", "ge") and "PartialOrd" in e[1]:
        op = {"lt": "<", "le": "<=", "gt": ">", "ge": ">="}[e[1].split("::")[-1]]
        l, r = e[2][0], e[2][1]
    if op is None:
        if e[0] == "const":
            return ("const", bool(e[1]) == truth)
        if e[0] == "call" and len(e[2]) == 1 and e[1].split("::")[-1] in ("is_some", "is_none", "is_ok", "is_err"):
            nm = e[1].split("::")[-1]
            pos = {"is_some": "Some", "is_none": "None", "is_ok": "Ok", "is_err": "Err"}[nm]
            neg = {"Some": "None", "None": "Some", "Ok": "Err", "Err": "Ok"}[pos]
            return ("in", ("discr", strip_load(e[2][0])), frozenset([pos if truth else neg]))
        return ("bool", e, truth)
    if not truth:
        op = NEG[op]
    # constants to the right
    if _is_constlike(l) and not _is_constlike(r):
        l, r = r, l
        op = SWAP[op]
    v = as_variant(r)
    if v is not None and op in ("==", "!="):
        subj = ("discr", strip_load(l))
        if op == "==":
            return ("in", subj, frozenset([v[1]]))
        if v[0] in ENUMS:
            return ("in", subj, ENUMS[v[0]] - frozenset([v[1]]))
        return ("notin", subj, frozenset([v[1]]))
    if r[0] == "const" and isinstance(r[1], int):
        c = r[1]
        # `x + k op c` / `x - k op c` on overflow-checked unsigned arithmetic: a condition on x
        for _ in range(2):
            lc = strip_load(l)
            if lc[0] == "binop" and lc[1] in ("Add", "Sub") and lc[3][0] == "const" and type(lc[3][1]) is int and type(c) is int:
                c2 = c - lc[3][1] if lc[1] == "Add" else c + lc[3][1]
                if c2 < 0:
                    break
                l, c = lc[2], c2
            else:
                break
        r = ("const", c)
        if op == "==":
            return ("in", l, frozenset([c]))
        if op == "!=":
            return ("notin", l, frozenset([c]))
        # unsigned small-constant comparisons as value sets
        if op == "<" and 0 <= c <= 64:
            return ("in", l, frozenset(range(0, c)))
        if op == "<=" and 0 <= c <= 64:
            return ("in", l, frozenset(range(0, c + 1)))
        if op == ">=" and 0 <= c <= 64:
            return ("notin", l, frozenset(range(0, c)))
        if op == ">" and 0 <= c <= 64:
            return ("notin", l, frozenset(range(0, c + 1)))
        return ("cmp", op, l, r)
    # canonical orientation for non-constant comparisons: use < and <= only
    if op == ">":
        l, r, op = r, l, "<"
    elif op == ">=":
        l, r, op = r, l, "<="
    elif op in ("==", "!=") and repr(strip_sites(l)) > repr(strip_sites(r)):
        l, r = r, l
    return ("cmp", op, l, r)


def _is_constlike(e):
    e = strip_load(e)
    return e[0] in ("const", "str") or (e[0] == "agg" and not e[3])


UNIVERSES = [frozenset(["None", "Some"]), frozenset(["Ok", "Err"]), frozenset(["Continue", "Break"])]


def trivial_fact(f):
    """a value-set fact that excludes nothing"""
    if f[0] == "in":
        if f[2] in UNIVERSES:
            return True
        s = strip_load(f[1])
        if s[0] == "discr":
            for u in ENUMS.values():
                if f[2] == u:
                    return True
    if f[0] == "notin" and not f[2]:
        return True
    return False


def fs_add(S, facts):
    """add facts to a fact set, combining value sets of the same subject"""
    if not facts:
        return S
    out = set(S)
    for f in facts:
        if f[0] not in ("in", "notin"):
            out.add(f)
            continue
        cur = f
        for g in list(out):
            if g[0] in ("in", "notin") and g[1] == cur[1] and g is not cur:
                out.discard(g)
                if g[0] == "in" and cur[0] == "in":
                    cur = ("in", cur[1], g[2] & cur[2])
                elif g[0] == "in" and cur[0] == "notin":
                    cur = ("in", cur[1], g[2] - cur[2])
                elif g[0] == "notin" and cur[0] == "in":
                    cur = ("in", cur[1], cur[2] - g[2])
                else:
                    cur = ("notin", cur[1], g[2] | cur[2])
        if not trivial_fact(cur):
            out.add(cur)
    return frozenset(out)


def fs_join(A, B):
    """facts that hold on either of two paths: common facts, and for a subject constrained on both paths the union of its
    value sets"""
    if A == B:
        return A
    out = set(A & B)
    ia = {f[1]: f for f in A if f[0] in ("in", "notin")}
    ib = {f[1]: f for f in B if f[0] in ("in", "notin")}
    for subj, fa in ia.items():
        fb = ib.get(subj)
        if fb is None or fa == fb:
            continue
        if fa[0] == "in" and fb[0] == "in":
            if not trivial_fact(("in", subj, fa[2] | fb[2])):
                out.add(("in", subj, fa[2] | fb[2]))
        elif fa[0] == "notin" and fb[0] == "notin":
            common = fa[2] & fb[2]
            if common:
                out.add(("notin", subj, common))
        else:
            i, n = (fa, fb) if fa[0] == "in" else (fb, fa)
            rest = n[2] - i[2]
            if rest:
                out.add(("notin", subj, rest))
    return frozenset(out)


def negate_fact(f):
    if f[0] == "in":
        return ("notin", f[1], f[2])
    if f[0] == "notin":
        return ("in", f[1], f[2])
    if f[0] == "cmp":
        op = NEG[f[1]]
        l, r = f[2], f[3]
        if op == ">":
            l, r, op = r, l, "<"
        elif op == ">=":
            l, r, op = r, l, "<="
        return ("cmp", op, l, r)
    if f[0] == "bool":
        return ("bool", f[1], not f[2])
    if f[0] == "const":
        return ("const", not f[1])
    return ("not", f)


# ---------------------------------------------------------------- pretty printing of expressions
def show(e, body=None, depth=0):
    if not isinstance(e, tuple) or not e:
        return repr(e)
    if depth > 14:
        return "…"
    k = e[0]
    s = lambda x: show(x, body, depth + 1)
    if k == "param":
        return body.local_name(e[1]) if body is not None else "arg%d" % e[1]
    if k == "upvar":
        return "upvar%d" % e[1]
    if k == "const":
        return str(e[1])
    if k == "str":
        return json.dumps(e[1], ensure_ascii=False)
    if k == "fn":
        return "fn " + e[1]
    if k == "field":
        return "%s.%s" % (s(e[1]), e[2].split("::", 1)[1] if "::" in e[2] else e[2])
    if k == "elem":
        return "%s[%s]" % (s(e[1]), s(e[2]))
    if k == "load":
        return s(e[1]) + "@bb%d" % e[2][0]
    if k == "addr":
        return "&" + (body.local_name(e[1]) if body is not None else "_%d" % e[1])
    if k == "call":
        return "%s(%s)#bb%s" % (short_path(e[1]), ", ".join(s(a) for a in e[2]), e[3] if len(e) > 3 else "")
    if k == "item":
        return "item(%s)#bb%s" % (s(e[1]), e[2] if len(e) > 2 else "")
    if k == "next":
        return "next(%s)" % s(e[1])
    if k == "iter":
        return "%s.%s()" % (s(e[1]), e[2])
    if k == "adapt":
        return "%s.%s(%s)" % (s(e[2]), e[1], ", ".join(s(a) for a in e[3]))
    if k == "binop":
        return "(%s %s %s)" % (s(e[2]), e[1], s(e[3]))
    if k == "unop":
        return "%s(%s)" % (e[1], s(e[2]))
    if k == "cast":
        return "(%s as %s)" % (s(e[2]), e[1])
    if k == "discr":
        return "discr(%s)" % s(e[1])
    if k == "agg":
        if not e[3]:
            return "%s::%s" % (e[1], e[2])
        return "%s::%s{%s}" % (e[1], e[2], ", ".join("%s: %s" % (f, s(x)) for f, x in e[3]))
    if k == "tuple":
        return "(%s)" % ", ".join(s(x) for x in e[1])
    if k == "array":
        return "[%s]" % ", ".join(s(x) for x in e[1])
    if k == "closure":
        return "closure<%s>" % short_path(e[1])
    if k == "phi":
        return "phi(%s)" % " | ".join(s(x) for x in e[1])
    if k in ("some", "opt", "try", "ctx"):
        return "%s(%s)" % (k, s(e[1]))
    if k == "in":
        return "%s ∈ {%s}" % (s(e[1]), ",".join(str(x) for x in sorted(e[2], key=str)))
    if k == "notin":
        return "%s ∉ {%s}" % (s(e[1]), ",".join(str(x) for x in sorted(e[2], key=str)))
    if k == "cmp":
        return "%s %s %s" % (s(e[2]), e[1], s(e[3]))
    if k == "bool":
        return "%s%s" % ("" if e[2] else "!", s(e[1]))
    return "%s(%s)" % (k, ", ".join(s(x) if isinstance(x, tuple) else str(x) for x in e[1:]))


def short_path(p):
    p = re.sub(r"<impl [^>]*?([A-Za-z_]+)(<[^>]*>)?>", r"\1", p)
    parts = p.split("::")
    return "::".join(parts[-2:]) if len(parts) > 2 else p


def subst(e, mapping):
    """substitute ("param", n) / ("upvar", i) nodes"""
    if not isinstance(e, tuple) or not e:
        return e
    if e[0] in ("param", "upvar") and e in mapping:
        return mapping[e]
    if isinstance(e, frozenset):
        return e
    return tuple(subst(x, mapping) if isinstance(x, tuple) else x for x in e)


def walk(e):
    """all sub-expressions"""
    if isinstance(e, tuple) and e:
        if isinstance(e[0], str):
            yield e
        for x in e:
            if isinstance(x, tuple):
                yield from walk(x)


def mentions(e, pred):
    return any(pred(x) for x in walk(e))

"""Physical inlining of crate-private, non-recursive helper functions into their callers, on the
driver's MIR facts.  After inlining every API function (public or trait method) is one CFG that
contains the code of the private helpers it calls, so that guards, dominance, reaching definitions
and provenance are computed uniformly, and who-may-write rules attribute effects to API functions.

Not inlined: public functions (they stay call events), recursive functions, closures (they are
invoked from inside std adaptors; model.Collector follows those), anything beyond MAX_DEPTH."""
import copy

MAX_DEPTH = 5


def local_callees(raw):
    out = []
    for blk in raw["blocks"]:
        t = blk["term"]
        if t["k"] == "call" and t["callee"].get("local") and t["callee"].get("kind") in ("Fn", "AssocFn"):
            out.append(t["callee"]["path"])
    return out


def recursive_set(raws):
    """paths of local functions that can reach themselves through local calls"""
    graph = {p: set(local_callees(r)) & set(raws) for p, r in raws.items()}
    # a function reaches the closures it creates (they run inside std adaptors it calls)
    for p, r in raws.items():
        if r.get("kind") == "Closure" and r.get("parent") in graph:
            graph[r["parent"]].add(p)
    rec = set()
    for p in graph:
        seen = set()
        st = list(graph[p])
        while st:
            x = st.pop()
            if x == p:
                rec.add(p)
                break
            if x in seen:
                continue
            seen.add(x)
            st.extend(graph.get(x, ()))
    return rec


def inlinable(raw):
    return raw.get("kind") in ("Fn", "AssocFn") and raw.get("vis") != "pub" and not raw.get("trait") and not raw.get("derived")


# ---------------------------------------------------------------- rewriting helpers
def rw_place(p, loff):
    q = {"local": p["local"] + loff, "proj": [], "ty": p.get("ty", "")}
    for e in p["proj"]:
        if e["k"] == "index":
            e = dict(e)
            e["local"] = e["local"] + loff
        q["proj"].append(e)
    return q


def rw_operand(o, loff, poff):
    k = o.get("k")
    if k in ("copy", "move"):
        return {"k": k, "place": rw_place(o["place"], loff)}
    if k == "const" and "promoted" in o:
        o = dict(o)
        o["promoted"] = o["promoted"] + poff
    return o


def rw_rvalue(rv, loff, poff):
    r = dict(rv)
    for key in ("op", "l", "r", "x"):
        if isinstance(r.get(key), dict):
            r[key] = rw_operand(r[key], loff, poff)
    if "place" in r:
        r["place"] = rw_place(r["place"], loff)
    if "ops" in r:
        r["ops"] = [rw_operand(o, loff, poff) for o in r["ops"]]
    return r


def rw_stmt(s, loff, poff, ifile):
    s = dict(s)
    if "lhs" in s:
        s["lhs"] = rw_place(s["lhs"], loff)
    if "rv" in s:
        s["rv"] = rw_rvalue(s["rv"], loff, poff)
    s.setdefault("ifile", ifile)
    return s


def rw_term(t, loff, poff, boff, ifile):
    t = dict(t)
    k = t["k"]
    for key in ("target", "unwind", "otherwise"):
        if t.get(key) is not None and key in t:
            t[key] = t[key] + boff
    if k == "switch":
        t["op"] = rw_operand(t["op"], loff, poff)
        t["targets"] = [[v, b + boff] for v, b in t["targets"]]
    elif k == "call":
        t["args"] = [rw_operand(a, loff, poff) for a in t["args"]]
        t["dest"] = rw_place(t["dest"], loff)
        c = t["callee"]
        if "indirect" in c:
            c = dict(c)
            c["indirect"] = rw_operand(c["indirect"], loff, poff)
            t["callee"] = c
    elif k == "assert":
        t["cond"] = rw_operand(t["cond"], loff, poff)
    elif k == "drop":
        t["place"] = rw_place(t["place"], loff)
    t.setdefault("ifile", ifile)
    return t


def file_of(raw):
    sp = raw.get("span", "")
    return sp.rsplit(":", 1)[0] if sp else ""


def inline_body(raws, path, rec, cache, stack=(), depth=0):
    """returns a raw body dict for `path` with its private non-recursive local callees inlined"""
    if path in cache:
        return cache[path]
    raw = raws[path]
    out = copy.copy(raw)
    out["locals"] = list(raw["locals"])
    out["debug"] = list(raw["debug"])
    out["promoted"] = list(raw.get("promoted", []))
    out["blocks"] = [dict(b, stmts=list(b["stmts"])) for b in raw["blocks"]]
    out["inlined"] = []
    ifile_root = file_of(raw)
    changed = True
    guard = 0
    i = 0
    while i < len(out["blocks"]):
        blk = out["blocks"][i]
        t = blk["term"]
        i += 1
        if blk.get("cleanup"):
            continue
        if t["k"] != "call":
            continue
        c = t["callee"]
        cp = c.get("path")
        if not c.get("local") or cp not in raws or cp == path or cp in stack or cp in rec:
            continue
        craw = raws[cp]
        if not inlinable(craw) or depth >= MAX_DEPTH:
            continue
        if len(t["args"]) != craw["arg_count"]:
            continue
        guard += 1
        if guard > 60:
            break
        sub = inline_body(raws, cp, rec, cache, stack + (path,), depth + 1)
        loff = len(out["locals"])
        boff = len(out["blocks"])
        poff = len(out["promoted"])
        cfile = file_of(craw)
        out["locals"].extend(sub["locals"])
        out["promoted"].extend(sub.get("promoted", []))
        for d in sub["debug"]:
            out["debug"].append({"name": d["name"], "place": rw_place(d["place"], loff), "arg": None})
        # argument passing
        for ai, a in enumerate(t["args"]):
            blk["stmts"].append({"k": "assign", "lhs": {"local": loff + 1 + ai, "proj": [], "ty": ""},
                                 "rv": {"k": "use", "op": a}, "line": t.get("line"), "exp": t.get("exp", False),
                                 "ifile": t.get("ifile", ifile_root), "inl": "arg"})
        dest, target = t["dest"], t["target"]
        blk["term"] = {"k": "goto", "target": boff, "line": t.get("line"), "exp": t.get("exp", False),
                       "ifile": t.get("ifile", ifile_root), "inl_call": cp}
        for sb in sub["blocks"]:
            nb = {"cleanup": sb["cleanup"], "stmts": [rw_stmt(s, loff, poff, cfile) for s in sb["stmts"]]}
            st = sb["term"]
            if st["k"] == "return" and not sb["cleanup"]:
                nb["stmts"].append({"k": "assign", "lhs": dest, "rv": {"k": "use", "op": {"k": "move", "place": {"local": loff, "proj": [], "ty": ""}}},
                                    "line": st.get("line"), "exp": st.get("exp", False), "ifile": cfile, "inl": "ret"})
                if target is None:
                    nb["term"] = {"k": "unreachable", "line": st.get("line"), "exp": False, "ifile": cfile}
                else:
                    nb["term"] = {"k": "goto", "target": target, "line": st.get("line"), "exp": False, "ifile": cfile}
            else:
                nb["term"] = rw_term(st, loff, poff, boff, cfile)
            out["blocks"].append(nb)
        out["inlined"].append(cp)
        out["inlined"].extend(sub.get("inlined", []))
    cache[path] = out
    return out

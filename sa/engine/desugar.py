"""Desugaring of a few std functions that read/write through a `&mut T` argument into the plain MIR statements they
stand for, on the driver's facts (before inlining), so that every analysis sees an ordinary read followed by an
ordinary write:

    d = mem::replace(p, v)      =>   d = copy *p;  *p = v
    d = mem::take(p)            =>   d = copy *p;  *p = <Default>
    Clone::clone_from(p, q)     =>   t = Clone::clone(q);  *p = move t
    d = Option::replace(p, v)   =>   d = copy *p;  *p = Some(v)
    d = Option::take(p)         =>   d = copy *p;  *p = None
    d = cond.then_some(v)       =>   if cond { d = Some(v) } else { d = None }
"""


def _deref_place(op, ty):
    if op.get("k") not in ("copy", "move") or op["place"]["proj"]:
        return None
    return {"local": op["place"]["local"], "proj": [{"k": "deref"}], "ty": ty}


def _garg(callee):
    g = callee.get("gargs", "")
    g = g.strip()
    if g.startswith("[") and g.endswith("]"):
        g = g[1:-1]
    return g.split(", ")[0] if g else ""


def desugar_body(raw):
    blocks = raw["blocks"]
    n0 = len(blocks)
    for bi in range(n0):
        blk = blocks[bi]
        t = blk["term"]
        if t["k"] != "call" or blk.get("cleanup"):
            continue
        c = t["callee"]
        decl = c.get("decl", "")
        name = c.get("name")
        args = t["args"]
        meta = {"line": t.get("line"), "exp": t.get("exp", False)}
        if "ifile" in t:
            meta["ifile"] = t["ifile"]
        if decl in ("std::mem::replace", "core::mem::replace") and len(args) == 2 and t["target"] is not None:
            pl = _deref_place(args[0], _garg(c))
            if pl is None:
                continue
            blk["stmts"] = list(blk["stmts"]) + [
                dict(meta, k="assign", lhs=t["dest"], rv={"k": "use", "op": {"k": "copy", "place": pl}}, desugared="mem::replace"),
                dict(meta, k="assign", lhs=pl, rv={"k": "use", "op": args[1]}, desugared="mem::replace"),
            ]
            blk["term"] = dict(meta, k="goto", target=t["target"])
        elif decl in ("std::mem::take", "core::mem::take") and len(args) == 1 and t["target"] is not None:
            pl = _deref_place(args[0], _garg(c))
            if pl is None:
                continue
            blk["stmts"] = list(blk["stmts"]) + [
                dict(meta, k="assign", lhs=t["dest"], rv={"k": "use", "op": {"k": "copy", "place": pl}}, desugared="mem::take"),
                dict(meta, k="assign", lhs=pl, rv={"k": "use", "op": {"k": "const", "ty": pl["ty"], "text": "Default::default()"}},
                     desugared="mem::take"),
            ]
            blk["term"] = dict(meta, k="goto", target=t["target"])
        elif name == "then_some" and "bool" in decl and len(args) == 2 and t["target"] is not None and \
                args[0].get("k") in ("copy", "move") and not args[0]["place"]["proj"]:
            # d = cond.then_some(v)   =>   if cond { d = Some(v) } else { d = None }
            ns = len(blocks)
            blocks.append({"cleanup": False,
                           "stmts": [dict(meta, k="assign", lhs=t["dest"], desugared="then_some",
                                          rv={"k": "aggregate", "agg": "adt", "adt": "Option", "variant": "Some", "fields": ["0"], "ops": [args[1]]})],
                           "term": dict(meta, k="goto", target=t["target"])})
            blocks.append({"cleanup": False,
                           "stmts": [dict(meta, k="assign", lhs=t["dest"], desugared="then_some",
                                          rv={"k": "aggregate", "agg": "adt", "adt": "Option", "variant": "None", "fields": [], "ops": []})],
                           "term": dict(meta, k="goto", target=t["target"])})
            blk["term"] = dict(meta, k="switch", op=args[0], targets=[[0, ns + 1]], otherwise=ns, op_ty="bool")
        elif decl == "std::clone::Clone::clone_from" and name == "clone_from" and len(args) == 2 and t["target"] is not None:
            ty = c.get("self_arg_ty") or _garg(c)
            pl = _deref_place(args[0], ty)
            if pl is None:
                continue
            tmp = len(raw["locals"])
            raw["locals"] = list(raw["locals"]) + [{"ty": ty, "mut": True, "ty_adt": raw["locals"][args[0]["place"]["local"]].get("ty_adt")}]
            nb = len(blocks)
            c2 = dict(c, name="clone", decl="std::clone::Clone::clone", path=c.get("path", "").replace("clone_from", "clone"))
            blk["term"] = dict(t, callee=c2, args=[args[1]], dest={"local": tmp, "proj": [], "ty": ty}, target=nb)
            blocks.append({"cleanup": False,
                           "stmts": [dict(meta, k="assign", lhs=pl, rv={"k": "use", "op": {"k": "move", "place": {"local": tmp, "proj": [], "ty": ty}}},
                                          desugared="clone_from")],
                           "term": dict(meta, k="goto", target=t["target"])})
    return raw


def desugar(raws):
    for p, r in raws.items():
        try:
            desugar_body(r)
        except Exception:
            pass
    return raws

"""sodg-specific event model on top of core: state events (tag / persistence / data / edges /
counter / member-list / whole-slot operations), collected through private helpers and closures
(virtual inlining with a stated bound), plus closure predicate summaries."""
from core import *

INLINE_DEPTH = 3

V_FIELDS = {"Vertex::branch": "tag", "Vertex::persistence": "pers", "Vertex::data": "data", "Vertex::edges": "edges"}
S_FIELDS = ("Sodg::vertices", "Sodg::stores", "Sodg::branches", "Sodg::next_v")

# calls on an emap::Map that do not change which slots exist or what they hold
EMAP_READONLY = {"get", "iter", "len", "capacity", "contains_key", "is_empty", "values", "keys", "clone", "fmt",
                 "into_iter", "index", "eq", "serialize", "next_key", "next_key_gte"}
EMAP_MUTREF = {"get_mut", "iter_mut", "index_mut", "values_mut"}   # hand out &mut to elements (tracked as field writes)
STACK_READONLY = {"len", "is_empty", "iter", "into_iter", "capacity", "clone", "fmt", "eq", "serialize"}
MICROMAP_READONLY = {"get", "iter", "len", "is_empty", "contains_key", "keys", "values", "into_iter", "clone", "fmt",
                     "eq", "serialize", "capacity", "get_key_value", "index"}


def asserted_precondition(body, f, site):
    """fact f at `site` comes from an always-compiled assertion (the other outcome panics, Body.asserted) AND states a
    documented precondition of the API: a vertex the call works on is present / its slot exists, an id is below the
    capacity, the two endpoints of bind() differ.  Such an assertion cannot fire within any property's quantifier, so it is not a
    condition that selects between doing and not doing something.  Any other asserted condition (`assert!(edges.len() < N)`)
    stays a condition: it may stop a call the property says completes."""
    if not body.asserted(f, site):
        return False
    return is_documented_precondition(body, f)


def is_documented_precondition(body, f):
    """the shape part of asserted_precondition"""
    from core import strip_load as sl
    name = getattr(body, "name", "")
    if f[0] == "in" and f[2] == frozenset(["Some"]) and sl(f[1])[0] == "discr":
        o = sl(sl(f[1])[1])
        if o[0] == "opt" and sl(o[1])[0] == "elem" and sl(sl(o[1])[1])[0] == "field" and sl(sl(o[1])[1])[2] in ("Sodg::vertices", "Sodg::stores", "Sodg::branches"):
            return True
    if f[0] in ("in", "notin") and name not in ("add", "next_id", "empty"):
        x = sl(f[1])
        if x[0] == "field" and x[2] == "Vertex::branch" and sl(x[1])[0] == "elem" and sl(sl(x[1])[1])[0] == "field" and sl(sl(x[1])[1])[2] == "Sodg::vertices":
            if (f[0] == "notin" and f[2] == frozenset([0])) or (f[0] == "in" and 0 not in f[2]):
                return True
    if f[0] == "cmp" and f[1] == "!=" and name == "bind" and sl(f[2])[0] == "param" and sl(f[3])[0] == "param":
        return True
    if f[0] == "notin" and f[2] == frozenset([0]) and sl(f[1])[0] == "call" and sl(f[1])[1].split("::")[-1] == "capacity":
        return True     # a graph that holds any vertex at all has a capacity above zero
    if f[0] == "cmp" and f[1] == "<" and sl(f[2])[0] == "param":
        r = sl(f[3])
        if r[0] == "call" and r[1].split("::")[-1] == "capacity":
            return True
    return False


class Ev:
    __slots__ = ("kind", "body", "site", "facts", "chain", "d", "uncond")

    def __init__(self, kind, body, site, facts, chain, **d):
        self.kind = kind
        self.body = body          # body the event textually lives in
        self.site = site          # site in that body
        self.facts = facts        # must-hold facts (outer guards ∪ inner guards), substituted
        self.chain = chain        # ((outer_body, call_site), ...) from the root to here
        self.d = d
        self.uncond = True        # executed on every returning path of each inlined callee

    def __getattr__(self, k):
        try:
            return self.d[k]
        except KeyError:
            raise AttributeError(k)

    def root_site(self):
        """position projected onto the root body"""
        return self.chain[0][1] if self.chain else self.site

    def root_body(self):
        return self.chain[0][0] if self.chain else self.body

    def where(self):
        return self.body.where(self.site)

    def conditions(self):
        """the facts under which the event happens that *select* it: logging-level tests and asserted documented
        preconditions (asserted_precondition) are not conditions"""
        return [f for f in self.facts if "Level" not in repr(f) and not asserted_precondition(self.body, f, self.site)]

    def fn_key(self):
        b = self.root_body()
        return fn_key(b)


def fn_key(b):
    """Type::method key of a body (closures are attributed to their owner function)"""
    owner = b
    if b.kind == "Closure":
        ob = b.facts.bodies.get(b.owner)
        if ob is not None:
            owner = ob
    t = owner.self_adt or "?"
    if owner.trait:
        return "%s::%s(%s)" % (t, owner.name, owner.trait.split("::")[-1])
    return "%s::%s" % (t, owner.name)


def owner_body(b):
    if b.kind == "Closure":
        return b.facts.bodies.get(b.owner, b)
    return b


def vertex_of(loc):
    """loc = <graph>.vertices[k]  ->  (graph, k)   else None"""
    loc = strip_load(loc)
    if loc[0] == "elem":
        base = strip_load(loc[1])
        if base[0] == "field" and base[2] == "Sodg::vertices":
            return (strip_load(base[1]), loc[2])
    # item of an iteration over the vertex store: (key, &vertex)
    if loc[0] == "field" and loc[2] == "(tuple)::1":
        it = strip_load(loc[1])
        if it[0] == "item":
            src = iter_source(it[1])
            if src is not None:
                s = strip_load(src)
                if s[0] == "field" and s[2] == "Sodg::vertices":
                    return (strip_load(s[1]), ("field", it, "(tuple)::0"))
    return None


def iter_source(it):
    """collection an iterator expression ultimately walks (through adaptors)"""
    it = strip_load(it)
    while True:
        if it[0] == "iter":
            inner = strip_load(it[1])
            # an iteration over a vector that was collected from another iteration walks that one (in the vector's order)
            if inner[0] == "call" and inner[1].split("::")[-1] in ("collect", "collect_vec") and inner[2] and \
                    strip_load(inner[2][0])[0] in ("iter", "adapt"):
                it = strip_load(inner[2][0])
                continue
            return it[1]
        if it[0] == "adapt":
            it = strip_load(it[2])
            continue
        return None


def iter_adaptors(it):
    """list of (name, extra-args) adaptors from the source outwards"""
    out = []
    it = strip_load(it)
    while True:
        if it[0] == "adapt":
            out.append((it[1], it[3]))
            it = strip_load(it[2])
            continue
        if it[0] == "iter":
            inner = strip_load(it[1])
            if inner[0] == "call" and inner[1].split("::")[-1] in ("collect", "collect_vec") and inner[2] and \
                    strip_load(inner[2][0])[0] in ("iter", "adapt"):
                out.append(("collect", (inner,)))
                it = strip_load(inner[2][0])
                continue
        break
    out.reverse()
    return out


def slot_of(loc, field):
    """loc = <graph>.<field>[i] or item of iter over <graph>.<field> -> (graph, index-expr, how)"""
    loc = strip_load(loc)
    if loc[0] == "elem":
        base = strip_load(loc[1])
        if base[0] == "field" and base[2] == field:
            return (strip_load(base[1]), loc[2], "index")
    if loc[0] == "field" and loc[2] == "(tuple)::1":
        it = strip_load(loc[1])
        if it[0] == "item":
            src = iter_source(it[1])
            if src is not None:
                s = strip_load(src)
                if s[0] == "field" and s[2] == field:
                    return (strip_load(s[1]), ("field", it, "(tuple)::0"), "item")
    return None


def vfield_loc(loc):
    """loc = <vertex>.<Vertex::f> -> (f-kind, vertex-loc)"""
    loc = strip_load(loc)
    if loc[0] == "field" and loc[2] in V_FIELDS:
        return (V_FIELDS[loc[2]], loc[1])
    return None


def base_chain(loc):
    """the location and the locations it is nested in (not index expressions)"""
    out = []
    loc = strip_load(loc)
    while isinstance(loc, tuple) and loc and loc[0] in ("field", "elem", "downcast", "subslice", "vfield", "some", "slice"):
        out.append(loc)
        loc = strip_load(loc[1])
    out.append(loc)
    return out


def simplify(e, body):
    """resolve load(addr(local)) produced by substitution of by-reference captures"""
    if not isinstance(e, tuple) or not e:
        return e
    if isinstance(e, frozenset):
        return e
    if e[0] == "load" and isinstance(e[1], tuple) and e[1] and e[1][0] == "addr" and len(e[1]) == 4:
        return e[1][3].expr_local(e[1][1], e[1][2])
    if e[0] == "addr" and len(e) == 4:
        # a by-reference capture used as such (passed on, or as a receiver): references are transparent
        return e[3].expr_local(e[1], e[2])
    return tuple(simplify(x, body) if isinstance(x, tuple) else x for x in e)


def closure_param_binding(consumer, decl, it, n_params):
    """what the closure's parameter stands for, by the consumer it is handed to"""
    if consumer in ("for_each", "map", "filter_map", "flat_map", "for_each_mut", "inspect", "any", "all",
                    "position", "fold", "try_for_each", "find_map"):
        return ("item", it, "cl")
    if consumer in ("filter", "find", "skip_while", "take_while", "sorted_by_key", "max_by_key", "min_by_key",
                    "retain"):
        return ("item", it, "cl")
    return None


# closures handed to these are keys / predicates (pure functions of the item), not per-item effects
PRED_CONSUMERS = {"filter", "find", "sorted_by_key", "sorted_unstable_by_key", "sorted_by", "skip_while", "take_while",
                  "max_by_key", "min_by_key", "position", "any", "all", "sort_by_key", "sort_by", "retain", "with_context"}


def literal_item(e):
    """an ("item", iterator over a literal array [x1, .., xk], loop) node inside e -> (node, elements)"""
    for x in walk(e):
        if x[0] == "item":
            it = strip_load(x[1])
            if it[0] == "iter" and len(it) == 3:
                arr = strip_load(it[1])
                for _ in range(3):
                    if arr[0] == "cast":
                        arr = strip_load(arr[2])
                if arr[0] == "array" and 0 < len(arr[1]) <= 8:
                    return x, list(arr[1])
    return None


def unroll_literal_loops(evs):
    """`for x in [a, b] { body }`: every event of the body becomes one event per element, with the loop item replaced by
    the element (and the iteration's own Some/None bookkeeping dropped from its guards)"""
    out = []
    for e in evs:
        exprs = []
        if e.kind == "write":
            exprs = [e.d.get("loc"), e.d.get("val")]
        else:
            exprs = list(e.d.get("args", ()))
        hit = None
        for x in exprs:
            if isinstance(x, tuple):
                hit = literal_item(x)
                if hit:
                    break
        if hit is None:
            out.append(e)
            continue
        node, elems = hit
        key = strip_sites(node)

        def rep(x, el):
            if not isinstance(x, tuple) or not x or isinstance(x, frozenset):
                return x
            if x[0] == "item" and strip_sites(x) == key:
                return el
            return tuple(rep(y, el) if isinstance(y, tuple) and not isinstance(y, frozenset) else y for y in x)
        for eli, el in enumerate(elems):
            d = dict(e.d)
            d["unrolled"] = (node[2], eli, len(elems))      # (loop header, which element, of how many)
            if e.kind == "write":
                d["loc"] = rep(d["loc"], el)
                d["val"] = rep(d["val"], el)
            else:
                d["args"] = tuple(rep(a, el) for a in d["args"])
            facts = frozenset(rep(f, el) for f in e.facts
                              if not (f[0] == "in" and strip_load(f[1])[0] == "discr" and strip_load(strip_load(f[1])[1])[0] == "next" and
                                      strip_sites(strip_load(strip_load(f[1])[1])[1]) == strip_sites(node[1])))
            plain = False
            if isinstance(node[2], int) and not e.chain:
                # nothing but the iteration itself guards the event: it happens for every element
                hdr = e.body.facts_at((node[2], 0))
                plain = facts <= frozenset(rep(f, el) for f in hdr)
            d["unrolled"] = (node[2], eli, len(elems), plain)
            ne = Ev(e.kind, e.body, e.site, facts, e.chain, **d)
            ne.uncond = e.uncond
            if not e.uncond and plain:
                pd = e.body.pdom()
                if 0 in pd and node[2] in pd[0]:
                    ne.uncond = True
            out.append(ne)
    return out


class Collector:
    """collects raw events (field writes and calls) of a root body, following crate-local
    helpers and closures, with parameters / captures substituted"""

    def __init__(self, F, stop_names=(), depth=INLINE_DEPTH, stop_pub=True):
        self.F = F
        self.stop = set(stop_names)
        self.depth = depth
        self.stop_pub = stop_pub   # public / trait functions of the crate stay call events (they have their own contracts)
        self.lost = []   # places where inlining stopped at the bound

    def collect(self, root):
        out = []
        self._collect(root, {}, frozenset(), (), 0, out, True, set())
        return unroll_literal_loops(out)

    def _sub(self, e, mapping, body):
        if not mapping:
            return e
        return simplify(subst(e, mapping), body)

    def _subfacts(self, fs, mapping, body):
        if not mapping:
            return fs
        return frozenset(self._sub(f, mapping, body) for f in fs)

    def _collect(self, body, mapping, outer_facts, chain, depth, out, uncond, active, in_pred=False):
        if body.path in active:
            return
        active = active | {body.path}
        pd = body.pdom()
        for site, kind, s in body.sites():
            if body.blocks[site[0]]["cleanup"]:
                continue
            facts = outer_facts | self._subfacts(body.facts_at(site), mapping, body)
            un = uncond and (0 in pd and site[0] in pd[0])
            if kind == "stmt":
                if s["k"] == "assign" and s["lhs"]["proj"]:
                    loc = self._sub(body.expr_place(s["lhs"], site), mapping, body)
                    val = self._sub(body.expr_rvalue(s["rv"], site), mapping, body)
                    ev = Ev("write", body, site, facts, chain, loc=loc, val=val, exp=s.get("exp", False), in_pred=in_pred)
                    ev.uncond = un
                    out.append(ev)
                continue
            t = s
            if t["k"] != "call":
                continue
            c = t["callee"]
            args = tuple(self._sub(deref_addr(body, a), mapping, body) for a in body.call_args(t, site))
            rawargs = body.call_args(t, site)
            ev = Ev("call", body, site, facts, chain, callee=c, args=args, path=c.get("path", "?"),
                    name=c.get("name", ""), krate=c.get("krate", ""), exp=t.get("exp", False),
                    dest=t["dest"], target=t["target"], in_pred=in_pred)
            ev.uncond = un
            out.append(ev)
            # closures handed to this call
            for ai, a in enumerate(rawargs):
                a = strip_load(a)
                if a[0] == "addr":
                    a = strip_load(body.expr_local(a[1], a[2]))
                if a[0] == "closure":
                    cb = self.F.bodies.get(a[1])
                    if cb is None:
                        continue
                    cmap = {}
                    for ui, uop in enumerate(a[2]):
                        ue = uop
                        if ue[0] == "addr":
                            # captured by reference: what the local denotes where the closure is created, in the frame of the
                            # enclosing body (so that an enclosing closure's own parameter binding applies to it)
                            ue = body.expr_local(ue[1], ue[2])
                        cmap[("upvar", ui)] = self._sub(ue, mapping, body)
                    # closure parameters
                    it = args[0] if args else None
                    bind = closure_param_binding(c.get("name", ""), c.get("decl", ""), it, cb.arg_count - 1)
                    dcl = c.get("decl", "")
                    if (dcl.startswith("std::option::Option::<") or dcl.startswith("std::result::Result::<")) and cb.arg_count == 2 and \
                            c.get("name") in ("map", "and_then", "is_some_and", "is_ok_and", "map_or", "inspect", "filter", "ok_or_else"):
                        cmap[("param", 2)] = payload(it)     # Option/Result combinators hand the payload to the closure
                    elif c.get("name") in ("fold", "try_fold") and cb.arg_count == 3 and len(args) >= 2:
                        cmap[("param", 2)] = ("acc", site[0])                      # accumulator
                        cmap[("param", 3)] = ("item", it, ("cl", site[0]))         # item
                    elif bind is not None and cb.arg_count >= 2:
                        cmap[("param", 2)] = ("item", it, ("cl", site[0]))
                    else:
                        for pi in range(2, cb.arg_count + 1):
                            cmap[("param", pi)] = ("cparam", cb.path, pi)
                    if depth < self.depth + 2:
                        self._collect(cb, cmap, facts, chain + ((body, site),), depth + 1, out, False, active,
                                      in_pred or c.get("name", "") in PRED_CONSUMERS)
            # crate-local helper: inline
            if c.get("local") and c.get("kind") in ("Fn", "AssocFn"):
                cb = self.F.bodies.get(c["path"])
                if cb is None or c.get("name") in self.stop:
                    continue
                if self.stop_pub and (cb.vis == "pub" or cb.trait):
                    continue
                if depth >= self.depth:
                    self.lost.append((body, site, c["path"]))
                    continue
                cmap = {("param", i + 1): a for i, a in enumerate(args)}
                self._collect(cb, cmap, facts, chain + ((body, site),), depth + 1, out, un, active, in_pred)


def _answer_asserted(ev):
    """the Result of the call event is tested by an always-compiled assertion (`assert!(r.is_ok())`) or unwrapped: a refusal stops
    the call with a panic, it is not silently ignored"""
    b = ev.body
    bb = ev.site[0]

    def is_this_call(x):
        return x[0] == "call" and len(x) > 3 and x[3] == bb and x[1].split("::")[-1] == ev.name
    try:
        for f, _bi in b.compiled_assertions():
            if f[0] == "bool" and f[2] is True:
                ce = strip_load(f[1])
                if ce[0] == "call" and ce[1].split("::")[-1] == "is_ok" and ce[2] and mentions(ce[2][0], is_this_call):
                    return True
            if f[0] == "in" and f[2] <= frozenset(["Ok"]) and mentions(f[1], is_this_call):
                return True
        for site, t in b.calls():
            if t["callee"].get("name") in ("unwrap", "expect") and "Result" in t["callee"].get("decl", ""):
                args = [strip_load(deref_addr(b, a)) for a in b.call_args(t, site)]
                if args and mentions(args[0], is_this_call):
                    return True
    except Exception:
        return False
    return False


def classify(ev):
    """turn a raw event into zero or more state events: list of (kind, dict)"""
    out = []
    if ev.kind == "write":
        loc = strip_load(ev.loc)
        vf = vfield_loc(loc)
        if vf is not None:
            out.append((vf[0] + "_write", {"x": strip_load(vf[1]), "val": ev.val}))
            return out
        # nested write below a vertex field (e.g. data bytes): attribute to the field
        for sub in base_chain(loc):
            if sub[0] == "field" and sub[2] in V_FIELDS and sub is not loc:
                out.append((V_FIELDS[sub[2]] + "_write", {"x": strip_load(sub[1]), "val": ("partial", ev.val)}))
                return out
        if vertex_of(loc) is not None:
            v = strip_load(ev.val)
            if v[0] == "agg" and v[1] == "Vertex":
                # `*vtx = Vertex { .. }`: four field stores at once
                for fname, fe in v[3]:
                    kind = V_FIELDS.get("Vertex::" + fname)
                    if kind:
                        out.append((kind + "_write", {"x": loc, "val": fe}))
                return out
            out.append(("vertex_write", {"x": loc, "val": ev.val}))
            return out
        for f in ("Sodg::stores", "Sodg::branches"):
            sl = slot_of(loc, f)
            if sl is not None:
                out.append((("cnt" if f == "Sodg::stores" else "mem") + "_write",
                            {"graph": sl[0], "i": sl[1], "how": sl[2], "val": ev.val, "loc": loc}))
                return out
        if loc[0] == "field" and loc[2] in S_FIELDS:
            out.append(("sodg_field_write", {"field": loc[2], "graph": strip_load(loc[1]), "val": ev.val}))
            return out
        # writes below a Sodg field not otherwise classified
        for sub in base_chain(loc):
            if sub[0] == "field" and sub[2] in S_FIELDS:
                out.append(("sodg_deep_write", {"field": sub[2], "loc": loc, "val": ev.val}))
                return out
        return out
    # calls
    c = ev.callee
    args = ev.args
    if not args:
        return out
    a0 = strip_load(args[0])
    name = ev.name
    krate = ev.krate
    # member list operations
    sl = slot_of(a0, "Sodg::branches")
    if sl is not None and krate == "microstack":
        if name not in STACK_READONLY:
            op = name
            if name == "try_push" and _answer_asserted(ev):
                op = "push"      # `assert!(list.try_push(v).is_ok())` / `.try_push(v).unwrap()`: push with the panic spelled out
            out.append(("mem_call", {"graph": sl[0], "i": sl[1], "how": sl[2], "op": op, "args": args[1:], "loc": a0}))
        return out
    # whole-map operations
    if a0[0] == "field" and a0[2] in ("Sodg::vertices", "Sodg::stores", "Sodg::branches") and krate == "emap":
        if name in EMAP_READONLY or name in EMAP_MUTREF:
            return out
        out.append(("map_call", {"field": a0[2], "graph": strip_load(a0[1]), "op": name, "args": args[1:]}))
        return out
    # edges operations
    vf = vfield_loc(a0)
    if vf is not None and vf[0] == "edges" and krate == "micromap":
        if name not in MICROMAP_READONLY:
            out.append(("edges_call", {"x": strip_load(vf[1]), "op": name, "args": args[1:]}))
        return out
    return out


def state_events(F, root, stop_names=(), depth=INLINE_DEPTH):
    col = Collector(F, stop_names, depth)
    raw = col.collect(root)
    evs = []
    for ev in raw:
        for kind, d in classify(ev):
            e = Ev(kind, ev.body, ev.site, ev.facts, ev.chain, raw=ev, **d)
            e.uncond = ev.uncond
            evs.append(e)
    return evs, raw, col


# ------------------------------------------------------------------ relations between events
def same_root(a, b):
    return a.root_body() is b.root_body()


def ev_cooccur(a, b):
    """a and b are executed on exactly the same returning paths of the root body"""
    if not same_root(a, b):
        return False
    if a.chain == b.chain:
        return a.body.cooccur(a.site, b.site)
    # different inlining contexts: project to the root, and require unconditional execution inside
    ra, rb = a.root_site(), b.root_site()
    if not a.root_body().cooccur(ra, rb):
        return False
    return (a.uncond or not a.chain) and (b.uncond or not b.chain)


def ev_dominates(a, b):
    if not same_root(a, b):
        return False
    if a.chain == b.chain:
        return a.body.dominates(a.site, b.site)
    return a.root_body().dominates(a.root_site(), b.root_site()) and (a.uncond or not a.chain)


def ev_before(a, b):
    """a can execute before b on some path"""
    if a.chain == b.chain:
        return a.body.reaches(a.site, b.site)
    return a.root_body().reaches(a.root_site(), b.root_site()) or a.root_site() == b.root_site()


# ------------------------------------------------------------------ fact helpers
def facts_about(facts, pred):
    return [f for f in facts if f[0] in ("in", "notin", "cmp", "bool") and pred(f)]


def fact_subject(f):
    if f[0] in ("in", "notin"):
        return f[1]
    return None


def excludes(facts, subj_pred, value):
    """some fact says: subject (matching subj_pred) cannot be `value`"""
    for f in facts:
        if f[0] == "notin" and value in f[2] and subj_pred(f[1]):
            return f
        if f[0] == "in" and value not in f[2] and subj_pred(f[1]):
            return f
    return None


def requires(facts, subj_pred, values):
    """some fact says: subject ∈ S with S ⊆ values"""
    values = frozenset(values)
    for f in facts:
        if f[0] == "in" and f[2] <= values and subj_pred(f[1]):
            return f
    return None


def is_tag_of(e, x=None):
    """e is (a load of) Vertex::branch of vertex location x (any vertex if x is None)"""
    core = strip_load(e)
    if core[0] == "field" and core[2] == "Vertex::branch":
        if x is None:
            return True
        return strip_sites(core[1]) == strip_sites(x)
    return False


def is_pers_discr_of(e, x=None):
    core = strip_load(e)
    if core[0] == "discr":
        inner = strip_load(core[1])
        if inner[0] == "field" and inner[2] == "Vertex::persistence":
            if x is None:
                return True
            return strip_sites(inner[1]) == strip_sites(x)
    return False


def load_site(e):
    return e[2] if e[0] == "load" else None



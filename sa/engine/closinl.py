"""Desugaring of closures handed to *immediately invoking* std combinators, on the driver's MIR facts (before helper
inlining): the call is replaced by the control flow it stands for, with the closure's body spliced in, so that the
enclosing function is one CFG and dominance / path facts / reaching definitions see through it.

    opt.map(f)            =>  match opt { Some(x) => Some(f(x)), None => None }
    opt.and_then(f) / map_or(d, f) / map_or_else(d, f) / unwrap_or_else(f) / is_some_and(f) / inspect(f) /
    ok_or_else(f) / or_else(f);  res.map(f) / and_then(f) / map_err(f) / unwrap_or_else(f) / inspect(f) / is_ok_and(f)
    cond.then(f)          =>  if cond { Some(f()) } else { None }
    iter.for_each(f)      =>  loop { match iter.next() { Some(x) => f(x), None => break } }
    iter.try_for_each(f)  =>  the same loop leaving with the first Err / None
    iter.fold(init, f) / try_fold(init, f)   =>  the same loop with an accumulator

Lazy adaptors (`filter`, `map`, `find`, `sorted_by_key`, …) are not touched: their closures are summarised or followed
virtually by the rule engine.  A call is left alone whenever something is not in the expected shape."""
from inline import rw_stmt, rw_term, rw_place, file_of

OPT = "std::option::Option::<T>::"
RES = "std::result::Result::<T, E>::"
OPT_V = [[0, "None"], [1, "Some"]]
RES_V = [[0, "Ok"], [1, "Err"]]


def find_closure(raw, op):
    """operand -> (closure path, local) if it is a plain local whose only definition is a closure aggregate"""
    if not isinstance(op, dict) or op.get("k") not in ("move", "copy") or op["place"]["proj"]:
        return None
    loc = op["place"]["local"]
    found = None
    for blk in raw["blocks"]:
        for s in blk["stmts"]:
            if s.get("k") == "assign" and s["lhs"]["local"] == loc and not s["lhs"]["proj"]:
                if s["rv"]["k"] == "aggregate" and s["rv"].get("agg") == "closure" and found is None:
                    found = s["rv"]["closure"]
                else:
                    return None
        t = blk["term"]
        if t["k"] == "call" and t["dest"]["local"] == loc and not t["dest"]["proj"]:
            return None
    return (found, loc) if found else None


class Ctx:
    def __init__(self, raw, raws, meta, ifile):
        self.raw = raw
        self.raws = raws
        self.meta = meta
        self.ifile = ifile

    def local(self, ty, ty_adt=None):
        self.raw["locals"].append({"ty": ty, "mut": True, "ty_adt": ty_adt})
        return len(self.raw["locals"]) - 1

    def block(self, stmts=(), term=None):
        self.raw["blocks"].append({"cleanup": False, "stmts": list(stmts), "term": term})
        return len(self.raw["blocks"]) - 1

    def goto(self, target):
        return dict(self.meta, k="goto", target=target)

    def assign(self, lhs, rv):
        return dict(self.meta, k="assign", lhs=lhs, rv=rv, desugared="closure")

    def unreachable(self):
        return self.block([], dict(self.meta, k="unreachable"))

    def splice(self, cpath, env_local, params, result, cont, pre=(), env_as_is=False):
        """copy of closure body `cpath` appended to the blocks; returns its entry block.  env_local: local holding the
        closure value; params: operands for the closure's declared parameters; result: place that receives the returned
        value; cont: block to continue at; pre: statements to run first"""
        raw = self.raw
        if isinstance(cpath, tuple) and cpath[0] == "fn":
            # not a closure but a function item: call it
            entry = self.block(list(pre), dict(self.meta, k="call", callee=cpath[1], args=list(params), dest=result, target=cont, unwind=None,
                                               fn_exp=False, desugared="closure"))
            return entry
        craw = self.raws[cpath]
        loff = len(raw["locals"])
        poff = len(raw.setdefault("promoted", []))
        raw["locals"].extend(craw["locals"])
        raw["promoted"].extend(craw.get("promoted", []))
        for d in craw.get("debug", []):
            raw.setdefault("debug", []).append({"name": d["name"], "place": rw_place(d["place"], loff), "arg": None})
        cfile = file_of(craw)
        envty = craw["locals"][1]["ty"]
        envp = {"local": env_local, "proj": [], "ty": ""}
        if env_as_is:
            erv = {"k": "use", "op": {"k": "move", "place": envp}}
        elif envty.startswith("&mut "):
            erv = {"k": "ref", "mut": True, "place": envp}
        elif envty.startswith("&"):
            erv = {"k": "ref", "mut": False, "place": envp}
        else:
            erv = {"k": "use", "op": {"k": "move", "place": envp}}
        stmts = list(pre)
        stmts.append(self.assign({"local": loff + 1, "proj": [], "ty": envty}, erv))
        for i, p in enumerate(params):
            stmts.append(self.assign({"local": loff + 2 + i, "proj": [], "ty": craw["locals"][2 + i]["ty"] if 2 + i < len(craw["locals"]) else ""},
                                     {"k": "use", "op": p}))
        entry = self.block(stmts, None)
        boff = len(raw["blocks"])
        raw["blocks"][entry]["term"] = self.goto(boff)
        for sb in craw["blocks"]:
            nb = {"cleanup": sb["cleanup"], "stmts": [rw_stmt(s, loff, poff, cfile) for s in sb["stmts"]]}
            st = sb["term"]
            if st["k"] == "return" and not sb["cleanup"]:
                nb["stmts"].append({"k": "assign", "lhs": result, "rv": {"k": "use", "op": {"k": "move", "place": {"local": loff, "proj": [], "ty": ""}}},
                                    "line": st.get("line"), "exp": st.get("exp", False), "ifile": cfile, "inl": "ret"})
                nb["term"] = {"k": "goto", "target": cont, "line": st.get("line"), "exp": False, "ifile": cfile}
            else:
                nb["term"] = rw_term(st, loff, poff, boff, cfile)
            raw["blocks"].append(nb)
        raw.setdefault("inlined_closures", []).append(cpath)
        return entry


def variant_place(local, adt, variant, vidx, ty=""):
    return {"local": local, "proj": [{"k": "downcast", "adt": adt, "variant": variant, "vidx": vidx},
                                     {"k": "field", "owner": adt + "::" + variant, "name": "0", "idx": 0, "ty": ty}], "ty": ty}


def agg(adt, variant, ops):
    return {"k": "aggregate", "agg": "adt", "adt": adt, "variant": variant, "fields": [str(i) for i in range(len(ops))], "ops": ops}


def mv(local, ty=""):
    return {"k": "move", "place": {"local": local, "proj": [], "ty": ty}}


def plain_local(op):
    if isinstance(op, dict) and op.get("k") in ("move", "copy") and not op["place"]["proj"]:
        return op["place"]["local"]
    return None


UNIT = {"k": "const", "ty": "()", "text": "()"}


def rewrite_call(raw, raws, bi):
    blk = raw["blocks"][bi]
    t = blk["term"]
    c = t["callee"]
    decl = c.get("decl", "") or ""
    name = c.get("name", "")
    args = t["args"]
    target = t.get("target")
    if target is None or "indirect" in c:
        return False
    meta = {"line": t.get("line"), "exp": t.get("exp", False)}
    if "ifile" in t:
        meta["ifile"] = t["ifile"]
    cx = Ctx(raw, raws, meta, t.get("ifile"))
    D = t["dest"]

    def clos(i, nparams):
        if i >= len(args):
            return None
        a = args[i]
        if isinstance(a, dict) and a.get("k") == "const" and a.get("fn") and nparams >= 1:
            # a function item handed to the combinator (`.map(i64::from_be_bytes)`): an ordinary call of it
            path = a.get("fn_resolved") or a["fn"]
            callee = {"decl": a["fn"], "path": path, "resolved": True, "krate": path.split("::")[0].lstrip("<"), "local": path in raws,
                      "kind": "Fn", "name": path.split("::")[-1], "unsafe": False, "gargs": a.get("fn_args", ""), "synthetic": True}
            return (("fn", callee, nparams), None)
        fc = find_closure(raw, args[i])
        if fc is None or fc[0] not in raws:
            return None
        cr = raws[fc[0]]
        if cr.get("arg_count") != 1 + nparams or fc[0] == raw.get("path"):
            return None
        return fc

    def rty(cpath):
        if isinstance(cpath, tuple):
            return ""
        return raws[cpath]["locals"][0]["ty"]

    def switch_enum(subject_local, variants, arms, subj_ty=""):
        d = cx.local("isize")
        adt = "Option" if variants is OPT_V else "Result"
        blk["stmts"] = list(blk["stmts"]) + [cx.assign({"local": d, "proj": [], "ty": "isize"},
                                                       {"k": "discr", "place": {"local": subject_local, "proj": [], "ty": subj_ty}, "adt": adt,
                                                        "variants": variants})]
        blk["term"] = dict(meta, k="switch", op=mv(d, "isize"), targets=[[0, arms[0]], [1, arms[1]]], otherwise=cx.unreachable(), op_ty="isize")

    # a local closure invoked directly: `let admit = |v| {..}; admit(x)`
    if c.get("kind") == "Closure" and decl in ("std::ops::FnMut::call_mut", "std::ops::Fn::call", "std::ops::FnOnce::call_once") and \
            len(args) == 2 and c.get("path") in raws and c.get("path") != raw.get("path"):
        cpath = c["path"]
        craw = raws[cpath]
        E = plain_local(args[0])
        T = plain_local(args[1])
        if E is None or T is None or craw.get("kind") != "Closure":
            return False
        # do not splice a closure into itself / into one of its own callees' bodies (recursion through a closure)
        if cpath in raw.get("inlined_closures", []) and raw.get("kind") == "Closure":
            return False
        np = craw.get("arg_count", 1) - 1
        envty = craw["locals"][1]["ty"]
        aty = raw["locals"][E]["ty"] if E < len(raw["locals"]) else ""
        # the operand is `&mut closure` / `&closure` for call_mut / call and the closure itself for call_once
        as_is = (envty.startswith("&") and aty.startswith("&")) or (not envty.startswith("&") and not aty.startswith("&"))
        if not as_is and not (envty.startswith("&") and not aty.startswith("&")):
            return False
        params = [{"k": "move", "place": {"local": T, "proj": [{"k": "field", "owner": "(tuple)", "name": str(i), "idx": i,
                                                                   "ty": craw["locals"][2 + i]["ty"]}], "ty": craw["locals"][2 + i]["ty"]}}
                  for i in range(np)]
        S = cx.splice(cpath, E, params, D, target, env_as_is=as_is)
        blk["term"] = cx.goto(S)
        return True
    is_opt = decl.startswith(OPT)
    is_res = decl.startswith(RES)
    if (is_opt or is_res) and args:
        O = plain_local(args[0])
        if O is None:
            return False
        adt = "Option" if is_opt else "Result"
        V = OPT_V if is_opt else RES_V
        good, bad = ("Some", 1) if is_opt else ("Ok", 0)
        oty = raw["locals"][O]["ty"] if O < len(raw["locals"]) else ""

        def arms(good_blk, bad_blk):
            return (bad_blk, good_blk) if is_opt else (good_blk, bad_blk)
        if name in ("map", "and_then") and len(args) == 2:
            fc = clos(1, 1)
            if fc is None:
                return False
            R = cx.local(rty(fc[0]))
            P = cx.local(raws[fc[0]]["locals"][2]["ty"] if not isinstance(fc[0], tuple) else "")
            if name == "map":
                K = cx.block([cx.assign(D, agg(adt, good, [mv(R)]))], cx.goto(target))
            else:
                K = cx.block([cx.assign(D, {"k": "use", "op": mv(R)})], cx.goto(target))
            S = cx.splice(fc[0], fc[1], [mv(P)], {"local": R, "proj": [], "ty": ""}, K,
                          pre=[cx.assign({"local": P, "proj": [], "ty": ""}, {"k": "use", "op": {"k": "move", "place": variant_place(O, adt, good, bad)}})])
            if is_opt:
                N = cx.block([cx.assign(D, agg("Option", "None", []))], cx.goto(target))
            else:
                N = cx.block([cx.assign(D, agg("Result", "Err", [{"k": "move", "place": variant_place(O, "Result", "Err", 1)}]))], cx.goto(target))
            switch_enum(O, V, arms(S, N), oty)
            return True
        if name == "map_err" and is_res and len(args) == 2:
            fc = clos(1, 1)
            if fc is None:
                return False
            R = cx.local(rty(fc[0]))
            P = cx.local("")
            K = cx.block([cx.assign(D, agg("Result", "Err", [mv(R)]))], cx.goto(target))
            S = cx.splice(fc[0], fc[1], [mv(P)], {"local": R, "proj": [], "ty": ""}, K,
                          pre=[cx.assign({"local": P, "proj": [], "ty": ""}, {"k": "use", "op": {"k": "move", "place": variant_place(O, "Result", "Err", 1)}})])
            G = cx.block([cx.assign(D, agg("Result", "Ok", [{"k": "move", "place": variant_place(O, "Result", "Ok", 0)}]))], cx.goto(target))
            switch_enum(O, V, (G, S), oty)
            return True
        if name == "map_or" and is_opt and len(args) == 3:
            fc = clos(2, 1)
            if fc is None:
                return False
            P = cx.local("")
            S = cx.splice(fc[0], fc[1], [mv(P)], D, target,
                          pre=[cx.assign({"local": P, "proj": [], "ty": ""}, {"k": "use", "op": {"k": "move", "place": variant_place(O, "Option", "Some", 1)}})])
            N = cx.block([cx.assign(D, {"k": "use", "op": args[1]})], cx.goto(target))
            switch_enum(O, V, (N, S), oty)
            return True
        if name == "map_or_else" and is_opt and len(args) == 3:
            fc = clos(2, 1)
            fd = clos(1, 0)
            if fc is None or fd is None:
                return False
            P = cx.local("")
            S = cx.splice(fc[0], fc[1], [mv(P)], D, target,
                          pre=[cx.assign({"local": P, "proj": [], "ty": ""}, {"k": "use", "op": {"k": "move", "place": variant_place(O, "Option", "Some", 1)}})])
            N = cx.splice(fd[0], fd[1], [], D, target)
            switch_enum(O, V, (N, S), oty)
            return True
        if name == "unwrap_or_else" and len(args) == 2:
            fc = clos(1, 0 if is_opt else 1)
            if fc is None:
                return False
            G = cx.block([cx.assign(D, {"k": "use", "op": {"k": "move", "place": variant_place(O, adt, good, bad)}})], cx.goto(target))
            if is_opt:
                N = cx.splice(fc[0], fc[1], [], D, target)
            else:
                P = cx.local("")
                N = cx.splice(fc[0], fc[1], [mv(P)], D, target,
                              pre=[cx.assign({"local": P, "proj": [], "ty": ""}, {"k": "use", "op": {"k": "move", "place": variant_place(O, "Result", "Err", 1)}})])
            switch_enum(O, V, arms(G, N), oty)
            return True
        if name in ("is_some_and", "is_ok_and", "is_none_or") and len(args) == 2:
            fc = clos(1, 1)
            if fc is None:
                return False
            P = cx.local("")
            S = cx.splice(fc[0], fc[1], [mv(P)], D, target,
                          pre=[cx.assign({"local": P, "proj": [], "ty": ""}, {"k": "use", "op": {"k": "move", "place": variant_place(O, adt, good, bad)}})])
            N = cx.block([cx.assign(D, {"k": "use", "op": {"k": "const", "ty": "bool", "text": "true" if name == "is_none_or" else "false",
                                                           "val": 1 if name == "is_none_or" else 0}})], cx.goto(target))
            switch_enum(O, V, arms(S, N), oty)
            return True
        if name == "filter" and is_opt and len(args) == 2:
            fc = clos(1, 1)
            if fc is None:
                return False
            P = cx.local("")
            B = cx.local("bool")
            KS = cx.block([cx.assign(D, {"k": "use", "op": mv(O)})], cx.goto(target))
            KN = cx.block([cx.assign(D, agg("Option", "None", []))], cx.goto(target))
            K = cx.block([], dict(meta, k="switch", op=mv(B, "bool"), targets=[[0, KN]], otherwise=KS, op_ty="bool"))
            S = cx.splice(fc[0], fc[1], [mv(P)], {"local": B, "proj": [], "ty": "bool"}, K,
                          pre=[cx.assign({"local": P, "proj": [], "ty": ""}, {"k": "ref", "mut": False, "place": variant_place(O, "Option", "Some", 1)})])
            N = cx.block([cx.assign(D, agg("Option", "None", []))], cx.goto(target))
            switch_enum(O, V, (N, S), oty)
            return True
        if name == "inspect" and len(args) == 2:
            fc = clos(1, 1)
            if fc is None:
                return False
            P = cx.local("")
            U = cx.local("()")
            K = cx.block([cx.assign(D, {"k": "use", "op": mv(O)})], cx.goto(target))
            S = cx.splice(fc[0], fc[1], [mv(P)], {"local": U, "proj": [], "ty": "()"}, K,
                          pre=[cx.assign({"local": P, "proj": [], "ty": ""}, {"k": "ref", "mut": False, "place": variant_place(O, adt, good, bad)})])
            switch_enum(O, V, arms(S, K), oty)
            return True
        if name == "ok_or_else" and is_opt and len(args) == 2:
            fc = clos(1, 0)
            if fc is None:
                return False
            R = cx.local(rty(fc[0]))
            G = cx.block([cx.assign(D, agg("Result", "Ok", [{"k": "move", "place": variant_place(O, "Option", "Some", 1)}]))], cx.goto(target))
            K = cx.block([cx.assign(D, agg("Result", "Err", [mv(R)]))], cx.goto(target))
            N = cx.splice(fc[0], fc[1], [], {"local": R, "proj": [], "ty": ""}, K)
            switch_enum(O, V, (N, G), oty)
            return True
        if name == "or_else" and len(args) == 2:
            fc = clos(1, 0 if is_opt else 1)
            if fc is None:
                return False
            G = cx.block([cx.assign(D, {"k": "use", "op": mv(O)})], cx.goto(target))
            if is_opt:
                N = cx.splice(fc[0], fc[1], [], D, target)
            else:
                P = cx.local("")
                N = cx.splice(fc[0], fc[1], [mv(P)], D, target,
                              pre=[cx.assign({"local": P, "proj": [], "ty": ""}, {"k": "use", "op": {"k": "move", "place": variant_place(O, "Result", "Err", 1)}})])
            switch_enum(O, V, arms(G, N), oty)
            return True
        return False
    if name == "then" and "bool" in decl and len(args) == 2:
        fc = clos(1, 0)
        B = plain_local(args[0])
        if fc is None or B is None:
            return False
        R = cx.local(rty(fc[0]))
        K = cx.block([cx.assign(D, agg("Option", "Some", [mv(R)]))], cx.goto(target))
        S = cx.splice(fc[0], fc[1], [], {"local": R, "proj": [], "ty": ""}, K)
        N = cx.block([cx.assign(D, agg("Option", "None", []))], cx.goto(target))
        blk["term"] = dict(meta, k="switch", op=args[0], targets=[[0, N]], otherwise=S, op_ty="bool")
        return True
    if decl in ("std::iter::Iterator::for_each", "std::iter::Iterator::try_for_each", "std::iter::Iterator::fold",
                "std::iter::Iterator::try_fold"):
        acc = name in ("fold", "try_fold")
        tr = name in ("try_for_each", "try_fold")
        fc = clos(2 if acc else 1, 2 if acc else 1)
        I = plain_local(args[0])
        if fc is None or I is None:
            return False
        cty = rty(fc[0])
        if tr and not (cty.startswith("std::result::Result<") or cty.startswith("std::option::Option<")):
            return False
        ity = raw["locals"][I]["ty"]
        it = cx.local(ity, raw["locals"][I].get("ty_adt"))
        ref = cx.local("&mut " + ity)
        n = cx.local("std::option::Option<" + (raws[fc[0]]["locals"][3 if acc else 2]["ty"] if not isinstance(fc[0], tuple) else "") + ">", "Option")
        P = cx.local("")
        A = cx.local("") if acc else None
        pre_x = [cx.assign({"local": it, "proj": [], "ty": ity}, {"k": "use", "op": args[0]})]
        if acc:
            pre_x.append(cx.assign({"local": A, "proj": [], "ty": ""}, {"k": "use", "op": args[1]}))
        blk["stmts"] = list(blk["stmts"]) + pre_x
        H2 = cx.block([], None)
        callee = {"decl": "std::iter::Iterator::next", "path": "<" + ity + " as std::iter::Iterator>::next", "resolved": False, "krate": "core",
                  "local": False, "gargs": "[" + ity + "]", "kind": "AssocFn", "name": "next", "unsafe": False, "self_arg_ty": ity,
                  "synthetic": True}
        # try_for_each / try_fold take `&mut self`: the operand is already a reference to the iterator -> reborrow it
        byref = ity.startswith("&mut ")
        refrv = {"k": "ref", "mut": True, "place": {"local": it, "proj": ([{"k": "deref"}] if byref else []), "ty": ity}}
        H = cx.block([cx.assign({"local": ref, "proj": [], "ty": "&mut " + ity}, refrv)],
                     dict(meta, k="call", callee=callee, args=[mv(ref)], dest={"local": n, "proj": [], "ty": ""}, target=H2, unwind=None,
                          fn_exp=True, desugared="closure"))
        blk["term"] = cx.goto(H)
        getp = cx.assign({"local": P, "proj": [], "ty": ""}, {"k": "use", "op": {"k": "move", "place": variant_place(n, "Option", "Some", 1)}})
        if not tr:
            if acc:
                B = cx.splice(fc[0], fc[1], [mv(A), mv(P)], {"local": A, "proj": [], "ty": ""}, H, pre=[getp])
                E = cx.block([cx.assign(D, {"k": "use", "op": mv(A)})], cx.goto(target))
            else:
                U = cx.local("()")
                B = cx.splice(fc[0], fc[1], [mv(P)], {"local": U, "proj": [], "ty": "()"}, H, pre=[getp])
                E = cx.block([cx.assign(D, {"k": "use", "op": UNIT})], cx.goto(target))
        else:
            R = cx.local(cty, "Result" if cty.startswith("std::result") else "Option")
            isres = cty.startswith("std::result")
            radt = "Result" if isres else "Option"
            K = cx.block([], None)
            B = cx.splice(fc[0], fc[1], ([mv(A), mv(P)] if acc else [mv(P)]), {"local": R, "proj": [], "ty": cty}, K, pre=[getp])
            # continue on Ok/Some, leave with the Err/None
            if acc:
                C = cx.block([cx.assign({"local": A, "proj": [], "ty": ""},
                                        {"k": "use", "op": {"k": "move", "place": variant_place(R, radt, "Ok" if isres else "Some", 0 if isres else 1)}})],
                             cx.goto(H))
            else:
                C = H
            if isres:
                L = cx.block([cx.assign(D, agg("Result", "Err", [{"k": "move", "place": variant_place(R, "Result", "Err", 1)}]))], cx.goto(target))
            else:
                L = cx.block([cx.assign(D, agg("Option", "None", []))], cx.goto(target))
            d2 = cx.local("isize")
            kb = raw["blocks"][K]
            kb["stmts"] = [cx.assign({"local": d2, "proj": [], "ty": "isize"},
                                     {"k": "discr", "place": {"local": R, "proj": [], "ty": cty}, "adt": radt, "variants": RES_V if isres else OPT_V})]
            kb["term"] = dict(meta, k="switch", op=mv(d2, "isize"), targets=([[0, C], [1, L]] if isres else [[0, L], [1, C]]),
                              otherwise=cx.unreachable(), op_ty="isize")
            fin = [mv(A)] if acc else [UNIT]
            E = cx.block([cx.assign(D, agg(radt, "Ok" if isres else "Some", fin))], cx.goto(target))
        h2 = raw["blocks"][H2]
        d = cx.local("isize")
        h2["stmts"] = [cx.assign({"local": d, "proj": [], "ty": "isize"},
                                 {"k": "discr", "place": {"local": n, "proj": [], "ty": ""}, "adt": "Option", "variants": OPT_V})]
        h2["term"] = dict(meta, k="switch", op=mv(d, "isize"), targets=[[0, E], [1, B]], otherwise=cx.unreachable(), op_ty="isize")
        return True
    return False


def desugar_closures(raws):
    done = set()
    kids = {}
    for p, r in raws.items():
        if r.get("kind") == "Closure" and r.get("parent") in raws:
            kids.setdefault(r["parent"], []).append(p)

    def process(path):
        if path in done:
            return
        done.add(path)
        for k in kids.get(path, []):
            process(k)
        raw = raws[path]
        raw["locals"] = list(raw["locals"])
        raw["blocks"] = [dict(b, stmts=list(b["stmts"])) for b in raw["blocks"]]
        raw["debug"] = list(raw.get("debug", []))
        raw["promoted"] = list(raw.get("promoted", []))
        bi = 0
        n = 0
        while bi < len(raw["blocks"]) and n < 200:
            blk = raw["blocks"][bi]
            t = blk["term"]
            if t and t["k"] == "call" and not blk.get("cleanup"):
                snapshot = (len(raw["locals"]), len(raw["blocks"]), len(raw["promoted"]), list(blk["stmts"]), blk["term"])
                try:
                    if rewrite_call(raw, raws, bi):
                        n += 1
                except Exception:
                    # leave the call as it was
                    del raw["locals"][snapshot[0]:]
                    del raw["blocks"][snapshot[1]:]
                    del raw["promoted"][snapshot[2]:]
                    blk["stmts"] = snapshot[3]
                    blk["term"] = snapshot[4]
            bi += 1
    for p in list(raws):
        process(p)
    return raws

#!/bin/bash
# development aid (round 12, ordinary refactorings): import /tmp/r13r-<id>/{1,2,3}/patch.diff into /verif/refactors/<id>-r{31,32,33}
# (confirmed with sa/confirm_ref.sh: applies, builds, passes the unedited suite).  usage: sa/import_r13.sh <id> [slot]
cd "$(dirname "$0")/.."
ID=$1; SLOT=${2:-q}
for n in 1 2 3; do
  src=/tmp/r13r-$ID/$n; [ -f $src/patch.diff ] || { echo "$ID/r$n: missing"; continue; }
  dst=refactors/$ID-r$((n+30)); mkdir -p $dst
  cp $src/patch.diff $dst/; [ -f $src/notes.md ] && cp $src/notes.md $dst/agent_notes.md
  ./sa/confirm_ref.sh $dst $SLOT > $dst/confirm.log 2>&1
  echo "$ID-r$((n+30)): $(grep -c 'test result: ok' $dst/confirm.log) ok, $(grep -c 'FAILED\|^error\|DOES NOT' $dst/confirm.log) failed"
done

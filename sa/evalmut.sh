#!/bin/bash
# development aid: what the 20 checks report for each surviving first-order mutant (6 in parallel) -> mutants/eval.txt
cd "$(dirname "$0")/.."
python3 sa/evalseed.py seeded/C01-1/patch.diff C01 >/dev/null 2>&1
one() {
  d=$1
  while :; do for slot in 0 1 2 3 5 6; do exec 9>.work/evalslot.$slot; if flock -n 9; then break 2; fi; done; sleep 0.2; done
  r=$(EVAL_SLOT=$slot python3 sa/evalseed.py $d/patch.diff 2>&1 | python3 -c "
import sys,json
try:
    d=json.load(sys.stdin); print(' '.join(sorted(d)) + ' :: ' + ' '.join(sorted({k for v in d.values() for k in v})) if d else 'NONE')
except Exception as e: print('ERR', e)")
  flock -u 9
  echo "$(basename $d) $(python3 -c "import json;m=json.load(open('$d/mutant.json'));print(m['file'],m['line'],'[%s]'%m['op'])") => $r"
}
export -f one
DIR=${1:-mutants/survivors}; OUT=${2:-mutants/eval.txt}
ls -d $DIR/[AM]*/ | sed 's:/$::' | xargs -P 6 -L 1 bash -c 'one $0' | sort > $OUT
grep -c '=> NONE' $OUT; wc -l < $OUT

#!/bin/bash
# dev aid: apply a patch on a scratch copy, keep the facts in .work/facts-dev-selftest, run ./check-like rule evaluation for given props with details
cd "$(dirname "$0")/.."
python3 - "$@" <<'PY'
import sys, os, subprocess, tempfile, shutil, json
sys.path.insert(0,'sa/engine'); sys.path.insert(0,'sa/rules'); sys.path.insert(0,'sa')
import runner, registry
from core import Facts
from report import Report
patch=os.path.abspath(sys.argv[1]); props=sys.argv[2:]
scratch=tempfile.mkdtemp(prefix="sodg-try-")
work=os.path.join(scratch,"repo")
subprocess.run(["rsync","-a","--exclude","target","--exclude",".git",runner.REPO+"/",work+"/"],check=True)
p=subprocess.run(["patch","-p1","-s","-i",patch],cwd=work,capture_output=True,text=True)
ff,dt=runner.run_driver("dev",repo=work,tag="selftest")
shutil.rmtree(scratch)
F=Facts(ff)
for pr in props:
    R=Report(pr)
    for name,fn in registry.PROPS[pr]["rules"]:
        try: fn(F,R)
        except Exception as ex:
            import traceback; traceback.print_exc()
    for v in R.violations:
        print(v["where"],v["key"]); print("   ",v["msg"][:200])
        for k,val in (v.get("detail") or {}).items(): print("    %s: %s"%(k,json.dumps(val,ensure_ascii=False,default=str)[:700]))
print("facts kept:",ff)
PY

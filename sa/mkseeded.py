"""copies confirmed seeded changes from /tmp/seed-<id>/<n>/ into /verif/seeded/<id>-<n>/ and evaluates the checks on each"""
import json, os, shutil, subprocess, sys, glob, re
VERIF = os.path.dirname(os.path.dirname(os.path.abspath(__file__)))
for d in sorted(glob.glob("/tmp/seed-C*/[12]")):
    if not os.path.exists(d + "/patch.diff") or not os.path.exists(d + "/confirm.log"):
        continue
    pid = re.search(r"seed-(C\d+)/(\d)", d)
    name = "%s-%s" % (pid.group(1), pid.group(2))
    out = os.path.join(VERIF, "seeded", name)
    os.makedirs(out, exist_ok=True)
    for f in ("patch.diff", "demo.rs", "notes.md", "confirm.log"):
        if os.path.exists(d + "/" + f):
            shutil.copy(d + "/" + f, out + "/" + ("agent_notes.md" if f == "notes.md" else f))
    log = open(d + "/confirm.log").read()
    res = re.findall(r"test result: (\w+)\. (\d+) passed; (\d+) failed", log)
    p = subprocess.run([sys.executable, os.path.join(VERIF, "sa", "evalseed.py"), d + "/patch.diff"], capture_output=True, text=True)
    try:
        keys = json.loads(p.stdout)
    except Exception:
        keys = {"error": p.stdout[-300:] + p.stderr[-300:]}
    notes = open(d + "/notes.md").read() if os.path.exists(d + "/notes.md") else ""
    meta = {
        "id": name,
        "breaks_property": pid.group(1),
        "source": "fresh sub-agent given only the property text and its own scratch worktree (nothing from /verif)",
        "needs_to_manifest": notes.strip().split("\n\n")[0][:1200],
        "confirmed": {
            "how": "sa/confirm_seed.sh in a scratch worktree of /repo HEAD: demo on unchanged code, demo with the patch, existing suite with the patch",
            "demo_unchanged": res[0] if len(res) > 0 else None,
            "demo_with_change": res[1] if len(res) > 1 else None,
            "suite_with_change": res[2:] if len(res) > 2 else None,
        },
        "checks": {
            "how": "python3 sa/evalseed.py patch.diff (scratch copy of /repo + patch, dev-profile facts, all 20 properties' rules; new violation keys only)",
            "new_violation_keys": keys,
            "caught_by_target_property": pid.group(1) in keys,
            "caught_by_any": bool(keys) and "error" not in keys,
        },
    }
    json.dump(meta, open(out + "/meta.json", "w"), indent=1, ensure_ascii=False)
    print(name, "target" if meta["checks"]["caught_by_target_property"] else ("other" if meta["checks"]["caught_by_any"] else "MISSED"), sorted(keys))

"""(re)generates /verif/seeded/<id>-<n>/meta.json: what the agent said is needed, what was confirmed (confirm.log), and
what the checks report for the patch (sa/evalseed.py on a scratch copy).  Usage: python3 sa/mkseeded.py [<id>-<n> ...]"""
import json, os, subprocess, sys, glob, re
VERIF = os.path.dirname(os.path.dirname(os.path.abspath(__file__)))
only = sys.argv[1:]
for out in sorted(glob.glob(os.path.join(VERIF, "seeded", "C*-*"))):
    name = os.path.basename(out)
    if only and name not in only:
        continue
    if not os.path.exists(out + "/patch.diff") or not os.path.exists(out + "/confirm.log"):
        continue
    prop, n = name.split("-")
    log = open(out + "/confirm.log").read()
    res = re.findall(r"test result: (\w+)\. (\d+) passed; (\d+) failed", log)
    p = subprocess.run([sys.executable, os.path.join(VERIF, "sa", "evalseed.py"), out + "/patch.diff"], capture_output=True, text=True)
    try:
        keys = json.loads(p.stdout)
    except Exception:
        keys = {"error": p.stdout[-300:] + p.stderr[-300:]}
    notes = open(out + "/agent_notes.md").read() if os.path.exists(out + "/agent_notes.md") else ""
    old = json.load(open(out + "/meta.json")) if os.path.exists(out + "/meta.json") else {}
    meta = {
        "id": name,
        "breaks_property": prop,
        "round": old.get("round", 1 if int(n) <= 2 else 2),
        "source": "fresh sub-agent given only the property text and its own scratch worktree (nothing from /verif)",
        "needs_to_manifest": notes.strip().split("\n\n")[0][:1200],
        "confirmed": {
            "how": "sa/confirm_seed.sh in a scratch worktree of /repo HEAD: demo on unchanged code, demo with the patch, existing suite with the patch",
            "demo_unchanged": res[0] if len(res) > 0 else None,
            "demo_with_change": res[1] if len(res) > 1 else None,
            "suite_with_change": res[2:] if len(res) > 2 else None,
        },
        "checks": {
            "how": "python3 sa/evalseed.py patch.diff (scratch copy of /repo + patch, dev-profile facts, all 20 properties' rules; new violation keys only)",
            "new_violation_keys": keys,
            "caught_by_target_property": prop in keys,
            "caught_by_any": bool(keys) and "error" not in keys,
        },
    }
    if "first_evaluation" in old:
        meta["first_evaluation"] = old["first_evaluation"]
    if "pair" in old:
        meta["pair"] = old["pair"]
    elif int(n) >= 9:
        meta["pair"] = {"twin": "refactors/%s-r%d" % (prop, int(n) + 8),
                        "what": "the same sub-agent's behaviour-preserving twin of this change (same function, same lines)"}
    json.dump(meta, open(out + "/meta.json", "w"), indent=1, ensure_ascii=False)
    print(name, "target" if meta["checks"]["caught_by_target_property"] else ("other" if meta["checks"]["caught_by_any"] else "MISSED"), sorted(keys))

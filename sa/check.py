"""./check <property> quick|thorough — static checks over /repo's current working tree.

quick:    dev-profile facts of the library, the property's rules.
thorough: the same rules over four build configurations (dev, release, all-features, cfg(test)),
          plus the checker self-test (seeded edits on scratch copies, compiled by the driver only).
Exit 0 = every rule instance discharged (known findings are printed as KNOWN-FINDING);
exit 1 + `VIOLATION property=<id> replay=<path>` otherwise."""
import json
import os
import sys
import time
import traceback

HERE = os.path.dirname(os.path.abspath(__file__))
VERIF = os.path.dirname(HERE)
sys.path.insert(0, os.path.join(HERE, "engine"))
sys.path.insert(0, os.path.join(HERE, "rules"))
sys.path.insert(0, HERE)

import runner            # noqa: E402
from core import Facts   # noqa: E402
from report import Report  # noqa: E402
import registry          # noqa: E402


def load_known():
    p = os.path.join(VERIF, "known_findings.json")
    if not os.path.exists(p):
        return {"open": [], "fixed": []}
    with open(p) as f:
        return json.load(f)


def run_rules(prop, fact_file, config):
    F = Facts(fact_file)
    R = Report(prop)
    R.config = config
    for name, fn in registry.PROPS[prop]["rules"]:
        try:
            fn(F, R)
        except Exception as ex:  # fail closed: an engine error is a failed check, not a pass
            R.bad(name, "%s/engine-error" % name, "(engine)",
                  "cannot establish %s: engine error %s: %s" % (name, type(ex).__name__, ex),
                  {"trace": traceback.format_exc()[-1500:]})
    return F, R


def main():
    if len(sys.argv) < 3:
        print(__doc__)
        sys.exit(2)
    prop, tier = sys.argv[1], sys.argv[2]
    if prop not in registry.PROPS:
        print("unknown property", prop)
        sys.exit(2)
    os.environ["VERIF_TIER_RUNNING"] = tier
    seed = int(os.environ.get("VERIF_SEED", "0") or 0)
    t0 = time.time()
    configs = ["dev"] if tier == "quick" else ["dev", "release", "allfeatures", "test"]
    known = load_known()
    open_keys = {k["key"]: k for k in known.get("open", []) if k.get("property") == prop}
    all_viol = []
    known_hit = []
    reports = []
    engine_fail = None
    for cfg in configs:
        try:
            ff, dt = runner.run_driver(cfg)
        except runner.DriverError as ex:
            engine_fail = "analysis build failed for config %s: %s" % (cfg, ex)
            break
        F, R = run_rules(prop, ff, cfg)
        reports.append((cfg, F, R, dt))
        for v in R.violations:
            v = dict(v)
            v["config"] = cfg
            if v["key"] in open_keys:
                if v["key"] not in [k["key"] for k in known_hit]:
                    known_hit.append(v)
            elif v["key"] not in [x["key"] for x in all_viol]:
                all_viol.append(v)
    selftest = None
    if tier == "thorough" and engine_fail is None:
        try:
            import selftest as st
            selftest = st.run(prop)
        except Exception as ex:
            selftest = {"error": "%s: %s" % (type(ex).__name__, ex)}
    # ---- output
    evdir = os.path.join(VERIF, "evidence")
    os.makedirs(os.path.join(evdir, "replay"), exist_ok=True)
    for old in os.listdir(os.path.join(evdir, "replay")):
        if old.startswith(prop + "-"):
            os.remove(os.path.join(evdir, "replay", old))
    meta = registry.PROPS[prop]
    lines = []
    if engine_fail:
        rp = os.path.join(evdir, "replay", "%s-0.json" % prop)
        with open(rp, "w") as f:
            json.dump({"property": prop, "error": engine_fail}, f, indent=1)
        print("cannot analyse: " + engine_fail[:3000])
        print("VIOLATION property=%s replay=%s" % (prop, rp))
    for cfg, F, R, dt in reports:
        n_ok = sum(1 for i in R.instances if i["ok"])
        print("[%s/%s] config=%s bodies=%d sites=%d instances=%d discharged=%d violations=%d (driver %.1fs)"
              % (prop, tier, cfg, len(R.bodies), R.sites, len(R.instances), n_ok, len(R.violations), dt))
    if selftest is not None:
        print("[%s/%s] self-test: %s" % (prop, tier, json.dumps({k: v for k, v in selftest.items() if k != "results"})))
    for v in known_hit:
        print("KNOWN-FINDING: property=%s %s [%s] at %s" % (prop, open_keys[v["key"]].get("what", v["msg"]), v["key"], v["where"]))
    for n, v in enumerate(all_viol):
        rp = os.path.join(evdir, "replay", "%s-%d.json" % (prop, n))
        with open(rp, "w") as f:
            json.dump({"property": prop, "rule": v["rule"], "key": v["key"], "where": v["where"], "message": v["msg"],
                       "detail": v.get("detail"), "config": v["config"], "also": v.get("also", []),
                       "how_to_reproduce": "cd /verif && ./check %s %s" % (prop, tier)}, f, indent=1, ensure_ascii=False, default=str)
        print("%s  %s  %s" % (v["where"], v["rule"], v["key"]))
        print("    " + v["msg"])
        if v.get("detail"):
            for k, val in v["detail"].items():
                if k == "trace":
                    print("    trace: " + str(val).replace("\n", "\n      "))
                else:
                    print("    %s: %s" % (k, json.dumps(val, ensure_ascii=False, default=str)))
        print("VIOLATION property=%s replay=%s" % (prop, rp))
    # ---- evidence
    wall = time.time() - t0
    insts = []
    floors = []
    bodies = set()
    sites = 0
    for cfg, F, R, dt in reports:
        for i in R.instances:
            insts.append(dict(i, config=cfg))
        for fl in R.floors:
            floors.append(dict(fl, config=cfg))
        bodies |= R.bodies
        sites += R.sites
    distinct = {(i["rule"], i["where"], i["what"]) for i in insts}
    discharged = sum(1 for i in insts if i["ok"])
    samples = []
    seen_rules = {}
    for i in insts:
        if seen_rules.get(i["rule"], 0) < 3:
            seen_rules[i["rule"]] = seen_rules.get(i["rule"], 0) + 1
            samples.append({"rule": i["rule"], "where": i["where"], "what": i["what"], "ok": i["ok"],
                            "detail": i.get("detail"), "config": i["config"]})
    ev = {
        "property_id": prop,
        "tier": tier,
        "seed": seed,
        "level": "other",
        "coverage": {
            "explanation": meta["explanation"],
            "rules": [n for n, _ in meta["rules"]],
            "configs": [c for c, _, _, _ in reports],
            "bodies_analysed": len(bodies),
            "crate_bodies_total": len(reports[0][1].bodies) if reports else 0,
            "sites_examined": sites,
            "obligations": len(insts),
            "discharged": discharged,
            "evaluations": max(len(insts), 1),
            "distinct_nontrivial": len(distinct),
            "rule": "one evaluation = one rule instance (rule × matched construct × build configuration); distinct = "
                    "distinct (rule, source position, obligation text) triples that matched a real MIR construct",
            "floors": floors,
            "known_findings_matched": [v["key"] for v in known_hit],
            "violation_keys": [v["key"] for v in all_viol],
            "samples": samples[:40],
            "checker_cmd": "./check %s %s" % (prop, tier),
            "trusted_base": meta.get("trusted", []),
            "selftest": selftest,
            "exhaustive": False,
        },
        "assumptions": meta.get("assumptions", []),
        "wall_s": round(wall, 2),
        "violations": len(all_viol) + (1 if engine_fail else 0),
    }
    with open(os.path.join(evdir, "%s.json" % prop), "w") as f:
        json.dump(ev, f, indent=1, ensure_ascii=False, default=str)
    if all_viol or engine_fail:
        sys.exit(1)
    print("OK property=%s tier=%s: %d rule instances discharged%s" % (
        prop, tier, discharged, (", %d known finding(s)" % len(known_hit)) if known_hit else ""))
    sys.exit(0)


if __name__ == "__main__":
    main()

"""Development aid: regenerates the per-change tables of DESIGN.md §9 / §9.1 / §9.2 from seeded/*/meta.json (run after
`python3 sa/mkseeded.py`).  Tables are recognised by their header rows."""
import json, glob, os, re
VERIF = os.path.dirname(os.path.dirname(os.path.abspath(__file__)))
metas = {}
for p in glob.glob(os.path.join(VERIF, "seeded", "C*-*", "meta.json")):
    m = json.load(open(p)); metas[m["id"]] = m
def order(i):
    a, b = i.split("-"); return (a, int(b))
def keys_of(m):
    k = m["checks"]["new_violation_keys"].get(m["breaks_property"], [])
    return "; ".join("`%s`" % x for x in k[:3]) + (" …" if len(k) > 3 else "")
def others(m):
    return ", ".join(sorted(x for x in m["checks"]["new_violation_keys"] if x != m["breaks_property"]))
def first(m):
    fe = m.get("first_evaluation") or {}
    if fe.get("caught_by_target_property", True): return "target"
    return "other property only" if fe.get("caught_by_any") else "missed"
def twin_now(m):
    t = (m.get("pair") or {}).get("twin")
    if not t: return ""
    return "silent" if t.split("/")[1] not in ALARMS else "alarm"
ALARMS = set()
ev = "/tmp/evalall.out"
if os.path.exists(ev):
    ALARMS = set(re.findall(r"REF-ALARM (C\d+-r\d+)", open(ev).read()))
rows1 = ["| %s | %s | %s |" % (i, keys_of(m), others(m)) for i, m in sorted(metas.items(), key=lambda x: order(x[0])) if order(i)[1] <= 2]
rows2 = ["| %s | %s | %s | %s |" % (i, first(m), keys_of(m), others(m)) for i, m in sorted(metas.items(), key=lambda x: order(x[0])) if 3 <= order(i)[1] <= 8]
rows3 = ["| %s | %s | %s | %s | %s |" % (i, first(m), keys_of(m), others(m), twin_now(m)) for i, m in sorted(metas.items(), key=lambda x: order(x[0])) if order(i)[1] >= 9]
p = os.path.join(VERIF, "DESIGN.md")
lines = open(p).read().split("\n")
def replace_table(header, rows):
    global lines
    for n, l in enumerate(lines):
        if l.strip() == header:
            j = n + 2
            while j < len(lines) and lines[j].startswith("| C"):
                j += 1
            lines = lines[:n + 2] + rows + lines[j:]
            return True
    return False
ok1 = replace_table("| change | reported by its own property as | also reported under |", rows1)
ok2 = replace_table("| change | first evaluation | reported by its own property now as | also reported under |", rows2)
ok3 = replace_table("| change | first evaluation | reported by its own property now as | also reported under | its twin now |", rows3)
open(p, "w").write("\n".join(lines))
print(ok1, len(rows1), ok2, len(rows2), ok3, len(rows3))

#!/bin/bash
# development aid (round 13, bug/twin pairs): import /tmp/r14-<id>/{1,2}/{bug.diff,twin.diff,demo.rs,notes.md} into
# /verif/seeded/<id>-{27,28} (bug, confirmed with sa/confirm_seed.sh) and /verif/refactors/<id>-r{35,36} (twin, confirmed with
# sa/confirm_ref.sh plus: the pair's demo passes with the twin).  usage: sa/import_r14.sh <id> [slot]
cd "$(dirname "$0")/.."
ID=$1; SLOT=${2:-q}
for n in 1 2; do
  src=/tmp/r14-$ID/$n
  if [ -f $src/bug.diff ] && [ -f $src/demo.rs ]; then
    dst=seeded/$ID-$((n+26)); mkdir -p $dst
    cp $src/bug.diff $dst/patch.diff; cp $src/demo.rs $dst/; [ -f $src/notes.md ] && cp $src/notes.md $dst/agent_notes.md
    ./sa/confirm_seed.sh $dst $SLOT > $dst/confirm.log 2>&1
    echo "$ID-$((n+26)) bug : $(grep 'test result\|^error\|DOES NOT' $dst/confirm.log | head -3 | cut -c1-45 | tr '\n' '|')"
  else echo "$ID/$n: bug incomplete"; fi
  if [ -f $src/twin.diff ]; then
    dst=refactors/$ID-r$((n+34)); mkdir -p $dst
    cp $src/twin.diff $dst/patch.diff; [ -f $src/demo.rs ] && cp $src/demo.rs $dst/demo.rs; [ -f $src/notes.md ] && cp $src/notes.md $dst/agent_notes.md
    ./sa/confirm_ref.sh $dst $SLOT > $dst/confirm.log 2>&1
    # the pair's demonstration must pass with the twin
    WT=/tmp/wt-twin-$SLOT-$$; git -C /repo worktree add -q --detach $WT HEAD
    ( cd $WT && git apply $OLDPWD/$dst/patch.diff && mkdir -p tests && cp $OLDPWD/$dst/demo.rs tests/demo.rs && echo "== demo with the twin" && CARGO_NET_OFFLINE=true CARGO_TARGET_DIR=/tmp/confirm-target-$SLOT cargo test --offline --test demo 2>&1 | grep -E "^test result|^error" | head -3 ) >> $dst/confirm.log 2>&1
    git -C /repo worktree remove --force $WT
    echo "$ID-r$((n+34)) twin: $(grep -c 'test result: ok' $dst/confirm.log) ok, $(grep -c 'FAILED\|^error\|DOES NOT' $dst/confirm.log) failed"
  else echo "$ID/$n: twin missing"; fi
done

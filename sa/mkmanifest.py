"""writes /verif/MANIFEST.json from the rule registry (kept in sync with what ./check can run)"""
import json
import os
import sys

HERE = os.path.dirname(os.path.abspath(__file__))
VERIF = os.path.dirname(HERE)
sys.path.insert(0, os.path.join(HERE, "engine"))
sys.path.insert(0, os.path.join(HERE, "rules"))
import registry  # noqa: E402

ALL = ["C%02d" % i for i in range(1, 21)]


def main():
    checks = []
    for pid in ALL:
        if pid not in registry.PROPS:
            continue
        m = registry.PROPS[pid]
        checks.append({
            "property_id": pid,
            "quick_cmd": "./check %s quick" % pid,
            "thorough_cmd": "./check %s thorough" % pid,
            "evidence_file": "/verif/evidence/%s.json" % pid,
            "replay_cmd_template": "cat {path}; ./check %s quick" % pid,
            "engine": "sa",
            "level_claimed": {
                "category": "other",
                "text": m["claim"],
                "design_ref": m.get("design_ref", "DESIGN.md §5 " + pid),
            },
            "level_note": m["note"],
            "technique": m["technique"],
        })
    na = []
    for pid in ALL:
        if pid not in registry.PROPS:
            na.append({"property_id": pid, "reason": registry.NOT_APPLICABLE.get(pid, "no check registered yet")})
    man = {
        "version": 1,
        "setup_cmd": "python3 sa/runner.py setup",
        "hooks": {
            "guard": "sodg_verif (unused: no hook is needed, the checks only read /repo)",
            "enable": "none; the analysis build is `cargo +nightly check` of /repo with sa/driver as RUSTC_WORKSPACE_WRAPPER",
            "baseline_off_cmd": "cd /repo && cargo test --workspace --no-fail-fast --offline",
            "source_commits": [],
            "add_only": True,
        },
        "engines": [{
            "name": "sa",
            "path": "sa/",
            "serves_properties": [c["property_id"] for c in checks],
            "kind_free_text": "static analysis: rustc_private MIR fact driver (sa/driver) + repository-specific rule engine "
                              "(sa/engine, sa/rules): who-may-write, must-pass-through, guard, provenance, taint, sibling and type-fact rules",
        }],
        "checks": checks,
        "not_applicable": na,
        "notes": "All checks are static: nothing executes sodg code. See DESIGN.md. known_findings.json lists open findings and fixed entries.",
    }
    with open(os.path.join(VERIF, "MANIFEST.json"), "w") as f:
        json.dump(man, f, indent=1, ensure_ascii=False)
    print("MANIFEST.json: %d checks, %d not applicable" % (len(checks), len(na)))


if __name__ == "__main__":
    main()

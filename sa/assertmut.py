"""Development aid: behaviour-preserving 'defensive' edits nobody designed — an always-true, non-constant debug assertion inserted at
the entry of every function and at the top of every loop body of the library sources.  Every patch is equivalent by construction, so
every report is a false alarm of the checker.  python3 sa/assertmut.py <outdir>  ->  <outdir>/A0001/patch.diff ..."""
import os, re, sys, difflib, json
sys.path.insert(0, os.path.dirname(os.path.abspath(__file__)))
import mutants as M

MODE = sys.argv[2] if len(sys.argv) > 2 else "assert"


def receiver_assert(path, impl):
    if MODE == "trace":
        x = {"Hex": "self.len()", "Script": "self.txt.len()", "Sodg": "self.vertices.capacity()"}.get(impl)
        return 'log::trace!("inserted {}", %s);' % x if x else None
    if MODE == "let":
        x = {"Hex": "self.len()", "Script": "self.txt.len()", "Sodg": "self.vertices.capacity()"}.get(impl)
        return 'let _inserted = %s;' % x if x else None
    if MODE == "assert!":
        x = {"Hex": "self.len() < usize::MAX", "Script": "self.txt.len() < usize::MAX", "Sodg": "self.vertices.capacity() > 0"}.get(impl)
        return 'assert!(%s, "inserted");' % x if x else None
    if impl == "Hex":
        return 'debug_assert!(self.len() < usize::MAX, "inserted");'
    if impl == "Script":
        return 'debug_assert!(self.txt.len() < usize::MAX, "inserted");'
    if impl == "Sodg":
        return 'debug_assert!(self.vertices.capacity() > 0, "inserted");'
    return None

def main(out):
    os.makedirs(out, exist_ok=True)
    n = 0
    for f in M.FILES:
        text = open(os.path.join(M.REPO, f)).read()
        code, rest = M.code_part(text)
        impl = None
        has_self = False
        for li, line in enumerate(code):
            m = re.match(r"^impl(?:<[^>]*>)? (?:[\w:<>, ]+ for )?(\w+)", line)
            if m:
                impl = m.group(1)
            if re.match(r"^\s*(pub )?(const )?fn \w+", line):
                # the signature may span lines: look ahead to the opening brace
                sig = line
                j = li
                while not sig.rstrip().endswith("{") and j + 1 < len(code):
                    j += 1
                    sig += code[j]
                has_self = bool(re.search(r"\(\s*&?(mut )?self\b", sig))
                if has_self and "const fn" not in sig:
                    a = receiver_assert(f, impl)
                    if a:
                        emit(out, f, code, rest, j, a, "entry of %s" % line.strip()[:60]); n += 1
            elif has_self and re.match(r"^\s*for .* \{$", line) and not line.strip().startswith("/"):
                a = receiver_assert(f, impl)
                if a:
                    emit(out, f, code, rest, li, a, "loop body at line %d" % (li + 1)); n += 1
    print(n, "patches")

_k = [0]
def emit(out, f, code, rest, after, stmt, what):
    _k[0] += 1
    ind = re.match(r"^\s*", code[after]).group(0) + "    "
    new = code[:after + 1] + [ind + stmt] + code[after + 1:]
    a = "\n".join(code + rest); b = "\n".join(new + rest)
    diff = "".join(difflib.unified_diff(a.splitlines(True), b.splitlines(True), "a/" + f, "b/" + f, n=3))
    d = os.path.join(out, "A%04d" % _k[0])
    os.makedirs(d, exist_ok=True)
    open(os.path.join(d, "patch.diff"), "w").write(diff)
    json.dump({"file": f, "line": after + 1, "op": "assert", "what": what, "old": "", "new": stmt}, open(os.path.join(d, "mutant.json"), "w"))

if __name__ == "__main__":
    main(sys.argv[1])

"""Checker self-test (thorough tier): seeded edits on scratch copies of the CURRENT /repo tree.

Each operator is a small source edit that breaks one rule instance and still compiles
("fire": the named rule must report a key containing `expect`), or a behaviour-preserving
refactor ("silent": no rule of the property may report anything new).  The scratch copy is
only compiled by the fact driver; nothing is executed.  Results go into the evidence and never
produce a VIOLATION line by themselves.  An operator whose pattern no longer applies to the
tree is recorded as skipped."""
import json
import os
import shutil
import subprocess
import sys
import tempfile

HERE = os.path.dirname(os.path.abspath(__file__))
sys.path.insert(0, os.path.join(HERE, "engine"))
sys.path.insert(0, os.path.join(HERE, "rules"))
sys.path.insert(0, HERE)

import runner  # noqa: E402
import registry  # noqa: E402
from core import Facts  # noqa: E402
from report import Report  # noqa: E402


def load_ops():
    with open(os.path.join(HERE, "selftest", "operators.json")) as f:
        ops = json.load(f)
    # the independently produced changes kept under /verif: every seeded breaking change must be reported under the
    # property it was written against, every behaviour-preserving rewrite must add nothing under its property
    top = os.path.dirname(HERE)
    for sub, kind in (("seeded", "fire"), ("refactors", "silent")):
        d = os.path.join(top, sub)
        for name in sorted(os.listdir(d)) if os.path.isdir(d) else []:
            pf = os.path.join(d, name, "patch.diff")
            prop = name.split("-")[0]
            if os.path.exists(pf) and prop in registry.PROPS:
                ops.append({"id": "%s/%s" % (sub, name), "kind": kind, "props": [prop], "patch": pf, "expect": "",
                            "what": "independently produced %s" % ("breaking change" if kind == "fire" else "behaviour-preserving rewrite")})
    return ops


def apply_patch(root, patch):
    r = subprocess.run(["patch", "-p1", "-s", "-f", "--dry-run", "-i", patch], cwd=root, capture_output=True, text=True)
    if r.returncode != 0:
        return False
    return subprocess.run(["patch", "-p1", "-s", "-f", "-i", patch], cwd=root, capture_output=True, text=True).returncode == 0


def apply_edits(root, edits):
    for ed in edits:
        p = os.path.join(root, ed["file"])
        if not os.path.exists(p):
            return False
        s = open(p).read()
        if ed["old"] not in s:
            return False
        cnt = ed.get("count", 1)
        s = s.replace(ed["old"], ed["new"], cnt)
        open(p, "w").write(s)
    return True


def run_props(props, fact_file):
    keys = {}
    F = Facts(fact_file)
    for prop in props:
        R = Report(prop)
        for name, fn in registry.PROPS[prop]["rules"]:
            try:
                fn(F, R)
            except Exception as ex:
                R.bad(name, "%s/engine-error" % name, "(engine)", "%s: %s" % (type(ex).__name__, ex))
        keys[prop] = sorted(v["key"] for v in R.violations)
    return keys


def run(prop=None, only=None, verbose=False):
    ops = load_ops()
    sel = [o for o in ops if (prop is None or prop in o["props"]) and (only is None or o["id"] in only)]
    if not sel:
        return {"operators": 0}
    # baseline keys on the current tree
    base_ff, _ = runner.run_driver("dev")
    props = sorted({p for o in sel for p in o["props"] if p in registry.PROPS})
    if prop is not None:
        props = [prop]
    base = run_props(props, base_ff)
    results = []
    scratch = tempfile.mkdtemp(prefix="sodg-selftest-")
    try:
        for o in sel:
            work = os.path.join(scratch, "repo")
            shutil.rmtree(work, ignore_errors=True)
            subprocess.run(["rsync", "-a", "--exclude", "target", "--exclude", ".git", runner.REPO + "/", work + "/"], check=True)
            if not (apply_patch(work, o["patch"]) if "patch" in o else apply_edits(work, o["edits"])):
                results.append({"id": o["id"], "kind": o["kind"], "status": "skipped", "why": "pattern no longer applies"})
                continue
            try:
                ff, dt = runner.run_driver("dev", repo=work, tag="selftest" + os.environ.get("EVAL_SLOT", ""))
            except runner.DriverError as ex:
                results.append({"id": o["id"], "kind": o["kind"], "status": "does-not-compile", "why": str(ex)[-300:]})
                continue
            keys = run_props(props, ff)
            new = {p: [k for k in keys[p] if k not in base[p]] for p in props}
            flat = [k for p in props for k in new[p] if p in o["props"]]
            if o["kind"] == "gone":
                still = [k for p in props for k in keys[p] if o["expect"] in k and p in o["props"]]
                other = [k for k in flat]
                st = "repaired-silent" if not still and not other else ("STILL-REPORTED" if still else "FALSE-ALARM")
                results.append({"id": o["id"], "kind": "gone", "status": st, "expect_gone": o["expect"], "reported": (still + other)[:6],
                                "what": o.get("what", "")})
            elif o["kind"] == "fire":
                hit = [k for k in flat if o["expect"] in k]
                st = "fired" if hit else "MISSED"
                results.append({"id": o["id"], "kind": "fire", "status": st, "expect": o["expect"], "reported": flat[:6],
                                "what": o.get("what", "")})
            else:
                st = "silent" if not flat else "FALSE-ALARM"
                results.append({"id": o["id"], "kind": "silent", "status": st, "reported": flat[:6], "what": o.get("what", "")})
            if verbose:
                print(results[-1]["id"], results[-1]["status"], flat[:4])
    finally:
        shutil.rmtree(scratch, ignore_errors=True)
        if not os.environ.get("SELFTEST_KEEP"):
            shutil.rmtree(os.path.join(runner.WORK, "facts-dev-selftest" + os.environ.get("EVAL_SLOT", "")), ignore_errors=True)
    summ = {
        "operators": len(sel),
        "fired": sum(1 for r in results if r["status"] == "fired"),
        "missed": [r["id"] for r in results if r["status"] == "MISSED"],
        "silent": sum(1 for r in results if r["status"] in ("silent", "repaired-silent")),
        "false_alarms": [r["id"] for r in results if r["status"] in ("FALSE-ALARM", "STILL-REPORTED")],
        "skipped": [r["id"] for r in results if r["status"] in ("skipped", "does-not-compile")],
        "results": results,
    }
    return summ


if __name__ == "__main__":
    prop = sys.argv[1] if len(sys.argv) > 1 and sys.argv[1] != "all" else None
    only = sys.argv[2].split(",") if len(sys.argv) > 2 else None
    s = run(prop, only, verbose=True)
    print(json.dumps({k: v for k, v in s.items() if k != "results"}, indent=1))
    for r in s.get("results", []):
        if r["status"] in ("MISSED", "FALSE-ALARM", "STILL-REPORTED", "does-not-compile", "skipped"):
            print(json.dumps(r, ensure_ascii=False))

#!/bin/bash
# dev aid: evaluate the given refactor ids (default: all round-2 ones) and print the alarm keys compactly
cd "$(dirname "$0")/.."
ids="$@"; [ -z "$ids" ] && ids=$(ls refactors | grep -E -- '-r[5-8]$')
n=0; bad=0
for id in $ids; do
  r=$(python3 sa/evalseed.py refactors/$id/patch.diff 2>&1 | python3 -c "
import sys,json
try:
    d=json.load(sys.stdin)
    ks=sorted({k for v in d.values() for k in v})
    print(' '.join(ks) if ks else 'OK')
except Exception as e: print('ERR',e)")
  n=$((n+1)); [ "$r" != OK ] && bad=$((bad+1))
  echo "$id: $r" | cut -c1-${W:-600}
done
echo "alarms: $bad / $n"

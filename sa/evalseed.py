"""Evaluate the registered checks against a seeded change (patch.diff), on a scratch copy of /repo.
Usage: python3 sa/evalseed.py <patch.diff> [prop ...]    -> prints, per property, the NEW violation keys.
(The official run against /repo itself — git apply, ./check, git checkout — is done by sa/seedcheck.sh.)"""
import json
import os
import shutil
import subprocess
import sys
import tempfile

HERE = os.path.dirname(os.path.abspath(__file__))
sys.path.insert(0, os.path.join(HERE, "engine"))
sys.path.insert(0, os.path.join(HERE, "rules"))
sys.path.insert(0, HERE)
import runner      # noqa: E402
import registry    # noqa: E402
import selftest    # noqa: E402


def main():
    patch = os.path.abspath(sys.argv[1])
    props = sys.argv[2:] or sorted(registry.PROPS)
    base_ff, _ = runner.run_driver("dev")
    base = selftest.run_props(props, base_ff)
    scratch = tempfile.mkdtemp(prefix="sodg-seed-")
    try:
        work = os.path.join(scratch, "repo")
        subprocess.run(["rsync", "-a", "--exclude", "target", "--exclude", ".git", runner.REPO + "/", work + "/"], check=True)
        p = subprocess.run(["patch", "-p1", "-s", "-i", patch], cwd=work, capture_output=True, text=True)
        if p.returncode != 0:
            print("PATCH DOES NOT APPLY:", p.stdout, p.stderr)
            sys.exit(2)
        try:
            ff, dt = runner.run_driver("dev", repo=work, tag="selftest")
        except runner.DriverError as ex:
            print("DOES NOT COMPILE:", str(ex)[-800:])
            sys.exit(3)
        keys = selftest.run_props(props, ff)
        out = {}
        for pr in props:
            new = [k for k in keys[pr] if k not in base[pr]]
            if new:
                out[pr] = new
        print(json.dumps(out, indent=1, ensure_ascii=False))
    finally:
        shutil.rmtree(scratch, ignore_errors=True)


if __name__ == "__main__":
    main()

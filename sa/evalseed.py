"""Evaluate the registered checks against a seeded change (patch.diff), on a scratch copy of /repo.
Usage: python3 sa/evalseed.py <patch.diff> [prop ...]    -> prints, per property, the NEW violation keys.
(The official run against /repo itself — git apply, ./check, git checkout — is done by sa/seedcheck.sh.)"""
import json
import os
import shutil
import subprocess
import sys
import tempfile

HERE = os.path.dirname(os.path.abspath(__file__))
sys.path.insert(0, os.path.join(HERE, "engine"))
sys.path.insert(0, os.path.join(HERE, "rules"))
sys.path.insert(0, HERE)
import runner      # noqa: E402
import registry    # noqa: E402
import selftest    # noqa: E402


def baseline(props):
    """violation keys on the unchanged tree; cached per state of the checker sources and of /repo"""
    import hashlib
    h = hashlib.sha256()
    for root, _, files in sorted(os.walk(HERE)):
        if ".work" in root or "driver/target" in root or "__pycache__" in root:
            continue
        for f in sorted(files):
            if f.endswith((".py", ".json", ".rs", ".toml")):
                h.update(open(os.path.join(root, f), "rb").read())
    h.update(subprocess.run(["git", "-C", runner.REPO, "rev-parse", "HEAD"], capture_output=True).stdout)
    h.update(subprocess.run(["git", "-C", runner.REPO, "diff"], capture_output=True).stdout)
    key = h.hexdigest()
    cf = os.path.join(runner.WORK, "baseline-keys.json")
    try:
        c = json.load(open(cf))
        if c.get("key") == key and all(p in c["keys"] for p in props):
            return {p: c["keys"][p] for p in props}
    except Exception:
        pass
    base_ff, _ = runner.run_driver("dev")
    allp = sorted(registry.PROPS)
    keys = selftest.run_props(allp, base_ff)
    tmp = cf + ".%d" % os.getpid()
    json.dump({"key": key, "keys": keys}, open(tmp, "w"))
    os.replace(tmp, cf)
    return {p: keys[p] for p in props}


def main():
    patch = os.path.abspath(sys.argv[1])
    props = sys.argv[2:] or sorted(registry.PROPS)
    base = baseline(props)
    slot = os.environ.get("EVAL_SLOT", "")
    tag = "selftest" + slot
    tdir = os.path.join(runner.WORK, "target-dev-" + tag)
    if slot and not os.path.isdir(tdir) and os.path.isdir(os.path.join(runner.WORK, "target-dev-selftest")):
        subprocess.run(["cp", "-r", os.path.join(runner.WORK, "target-dev-selftest"), tdir], check=True)
    scratch = tempfile.mkdtemp(prefix="sodg-seed-")
    try:
        work = os.path.join(scratch, "repo")
        subprocess.run(["rsync", "-a", "--exclude", "target", "--exclude", ".git", runner.REPO + "/", work + "/"], check=True)
        p = subprocess.run(["patch", "-p1", "-s", "-i", patch], cwd=work, capture_output=True, text=True)
        if p.returncode != 0:
            print("PATCH DOES NOT APPLY:", p.stdout, p.stderr)
            sys.exit(2)
        try:
            ff, dt = runner.run_driver("dev", repo=work, tag=tag)
        except runner.DriverError as ex:
            print("DOES NOT COMPILE:", str(ex)[-800:])
            sys.exit(3)
        keys = selftest.run_props(props, ff)
        out = {}
        for pr in props:
            new = [k for k in keys[pr] if k not in base[pr]]
            if new:
                out[pr] = new
        print(json.dumps(out, indent=1, ensure_ascii=False))
    finally:
        shutil.rmtree(scratch, ignore_errors=True)


if __name__ == "__main__":
    main()

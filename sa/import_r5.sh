#!/bin/bash
# development aid (round 4): import /tmp/r4s-<id>/{1,2} into /verif/seeded/<id>-{5,6} (confirmed with sa/confirm_seed.sh)
# and /tmp/r5r-<id>/{1..4} into /verif/refactors/<id>-r{9..12} (confirmed with sa/confirm_ref.sh).  usage: sa/import_r3.sh s|r <id>
cd "$(dirname "$0")/.."
K=$1; ID=$2
if [ "$K" = s ]; then
  for n in 1 2; do
    src=/tmp/r4s-$ID/$n; [ -f $src/patch.diff ] && [ -f $src/demo.rs ] || { echo "$ID/$n: incomplete"; continue; }
    dst=seeded/$ID-$((n+6)); mkdir -p $dst
    cp $src/patch.diff $src/demo.rs $dst/; [ -f $src/notes.md ] && cp $src/notes.md $dst/agent_notes.md
    ./sa/confirm_seed.sh $dst $ID > $dst/confirm.log 2>&1
    echo "$ID-$((n+6)): $(grep 'test result\|^error' $dst/confirm.log | head -3 | cut -c1-45 | tr '\n' '|')"
  done
else
  for n in 1 2 3 4; do
    src=/tmp/r5r-$ID/$n; [ -f $src/patch.diff ] || { echo "$ID/r$n: missing"; continue; }
    dst=refactors/$ID-r$((n+12)); mkdir -p $dst
    cp $src/patch.diff $dst/; [ -f $src/notes.md ] && cp $src/notes.md $dst/agent_notes.md
    ./sa/confirm_ref.sh $dst q > $dst/confirm.log 2>&1
    echo "$ID-r$((n+12)): $(grep -c 'test result: ok' $dst/confirm.log) ok, $(grep -c 'FAILED\|^error' $dst/confirm.log) failed"
  done
fi

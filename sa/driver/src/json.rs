// Minimal JSON writer (the driver has no dependencies).
pub enum J {
    Null,
    Bool(bool),
    Num(i128),
    Str(String),
    Arr(Vec<J>),
    Obj(Vec<(&'static str, J)>),
}

impl J {
    pub fn s(x: &str) -> J {
        J::Str(x.to_string())
    }
    pub fn obj(v: Vec<(&'static str, J)>) -> J {
        J::Obj(v)
    }
    pub fn write(&self, out: &mut String) {
        match self {
            J::Null => out.push_str("null"),
            J::Bool(b) => out.push_str(if *b { "true" } else { "false" }),
            J::Num(n) => out.push_str(&n.to_string()),
            J::Str(s) => {
                out.push('"');
                for c in s.chars() {
                    match c {
                        '"' => out.push_str("\\\""),
                        '\\' => out.push_str("\\\\"),
                        '\n' => out.push_str("\\n"),
                        '\r' => out.push_str("\\r"),
                        '\t' => out.push_str("\\t"),
                        c if (c as u32) < 0x20 => out.push_str(&format!("\\u{:04x}", c as u32)),
                        c => out.push(c),
                    }
                }
                out.push('"');
            }
            J::Arr(v) => {
                out.push('[');
                for (i, x) in v.iter().enumerate() {
                    if i > 0 {
                        out.push(',');
                    }
                    x.write(out);
                }
                out.push(']');
            }
            J::Obj(v) => {
                out.push('{');
                for (i, (k, x)) in v.iter().enumerate() {
                    if i > 0 {
                        out.push(',');
                    }
                    out.push('"');
                    out.push_str(k);
                    out.push_str("\":");
                    x.write(out);
                }
                out.push('}');
            }
        }
    }
}

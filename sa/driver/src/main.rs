// Fact extractor for the sodg static checks: a rustc driver used as RUSTC_WORKSPACE_WRAPPER.
// It type-checks the crate exactly as cargo asks (same flags, features, cfgs), and in
// `after_analysis` writes one JSON file with every MIR body of the `sodg` crate: places
// resolved to `Type::field` names, constants evaluated, callees resolved through the type
// system. Nothing is executed; nothing is written into the analysed repository.
#![feature(rustc_private)]
#![allow(clippy::all)]

extern crate rustc_abi;
extern crate rustc_driver;
extern crate rustc_hir;
extern crate rustc_interface;
extern crate rustc_middle;
extern crate rustc_session;
extern crate rustc_span;

mod json;
use json::J;

use rustc_hir::def::DefKind;
use rustc_hir::def_id::{DefId, LocalDefId};
use rustc_middle::mir::{
    self, AggregateKind, BasicBlock, Body, BorrowKind, Operand, Place, PlaceElem, Rvalue,
    StatementKind, TerminatorKind, UnwindAction,
};
use rustc_middle::ty::{self, Ty, TyCtxt};
use rustc_span::Span;

struct Cb;

impl rustc_driver::Callbacks for Cb {
    fn after_analysis<'tcx>(
        &mut self,
        _c: &rustc_interface::interface::Compiler,
        tcx: TyCtxt<'tcx>,
    ) -> rustc_driver::Compilation {
        let want = std::env::var("SODG_FACTS_CRATE").unwrap_or_else(|_| "sodg".to_string());
        let krate = tcx.crate_name(rustc_hir::def_id::LOCAL_CRATE).to_string();
        if krate == want {
            if let Ok(dir) = std::env::var("SODG_FACTS_OUT") {
                let j = dump(tcx, &krate);
                let is_test = tcx.sess.opts.test;
                let path = format!(
                    "{}/{}{}-{}.json",
                    dir,
                    krate,
                    if is_test { "-test" } else { "" },
                    std::process::id()
                );
                let mut s = String::new();
                j.write(&mut s);
                std::fs::write(&path, s).expect("cannot write fact file");
            }
        }
        rustc_driver::Compilation::Continue
    }
}

fn main() {
    let argv: Vec<String> = std::env::args().collect();
    // wrapper protocol: argv[1] is the path of the real rustc
    let mut args = vec!["rustc".to_string()];
    args.extend(argv.into_iter().skip(2));
    let mut cb = Cb;
    rustc_driver::run_compiler(&args, &mut cb);
}

fn span_str(tcx: TyCtxt<'_>, sp: Span) -> String {
    let sm = tcx.sess.source_map();
    let lo = sm.lookup_char_pos(sp.lo());
    let name = format!("{}", lo.file.name.prefer_local_unconditionally());
    format!("{}:{}", name, lo.line)
}

fn dump<'tcx>(tcx: TyCtxt<'tcx>, krate: &str) -> J {
    let mut bodies = Vec::new();
    let mut keys: Vec<LocalDefId> = tcx.mir_keys(()).iter().copied().collect();
    keys.sort_by_key(|d| tcx.def_path_str(d.to_def_id()));
    for did in keys {
        let kind = tcx.def_kind(did);
        match kind {
            DefKind::Fn | DefKind::AssocFn | DefKind::Closure => {}
            _ => continue,
        }
        if tcx.is_constructor(did.to_def_id()) {
            continue;
        }
        let body = tcx.optimized_mir(did);
        let mut b = dump_body(tcx, did, body);
        let proms = tcx.promoted_mir(did);
        let mut pj = Vec::new();
        for p in proms.iter() {
            pj.push(dump_body_inner(tcx, did, p));
        }
        b.push(("promoted", J::Arr(pj)));
        bodies.push(J::obj(b));
    }
    J::obj(vec![
        ("crate", J::s(krate)),
        ("nonce", J::s(&std::env::var("SODG_FACTS_NONCE").unwrap_or_default())),
        ("test", J::Bool(tcx.sess.opts.test)),
        (
            "debug_assertions",
            J::Bool(tcx.sess.opts.debug_assertions),
        ),
        ("adts", dump_adts(tcx)),
        ("consts", dump_consts(tcx)),
        ("impls", dump_impls(tcx)),
        ("unsafe", dump_unsafe(tcx)),
        ("bodies", J::Arr(bodies)),
    ])
}

/// free `const` items of integer type with their values (the documented limits live in such constants)
fn dump_consts<'tcx>(tcx: TyCtxt<'tcx>) -> J {
    let mut out = Vec::new();
    for id in tcx.hir_free_items() {
        let did = id.owner_id.def_id;
        if !matches!(tcx.def_kind(did), DefKind::Const { .. }) {
            continue;
        }
        let ty = tcx.type_of(did).instantiate_identity().skip_norm_wip();
        if !matches!(ty.kind(), ty::Uint(_) | ty::Int(_) | ty::Bool | ty::Char) {
            continue;
        }
        let mut v = vec![
            ("path", J::s(&tcx.def_path_str(did.to_def_id()))),
            ("ty", J::s(&format!("{}", ty))),
        ];
        if let Ok(mir::ConstValue::Scalar(rustc_middle::mir::interpret::Scalar::Int(si))) = tcx.const_eval_poly(did.to_def_id()) {
            v.push(("val", J::Num(si.to_bits_unchecked() as i128)));
        }
        out.push(J::obj(v));
    }
    J::Arr(out)
}

fn dump_adts<'tcx>(tcx: TyCtxt<'tcx>) -> J {
    let mut out = Vec::new();
    for id in tcx.hir_free_items() {
        let did = id.owner_id.def_id;
        match tcx.def_kind(did) {
            DefKind::Struct | DefKind::Enum | DefKind::Union => {}
            _ => continue,
        }
        let adt = tcx.adt_def(did.to_def_id());
        let mut variants = Vec::new();
        for v in adt.variants() {
            let mut fields = Vec::new();
            for f in &v.fields {
                let fty = tcx.type_of(f.did).instantiate_identity().skip_norm_wip();
                fields.push(J::obj(vec![
                    ("name", J::s(f.name.as_str())),
                    ("ty", J::s(&format!("{}", fty))),
                    ("vis", J::s(&format!("{:?}", f.vis))),
                    ("ty_parts", J::Arr(ty_parts(tcx, fty).into_iter().map(|s| J::s(&s)).collect())),
                ]));
            }
            variants.push(J::obj(vec![
                ("name", J::s(v.name.as_str())),
                ("fields", J::Arr(fields)),
            ]));
        }
        out.push(J::obj(vec![
            ("path", J::s(&tcx.def_path_str(did.to_def_id()))),
            ("name", J::s(tcx.item_name(did.to_def_id()).as_str())),
            ("kind", J::s(&format!("{:?}", tcx.def_kind(did)))),
            ("span", J::s(&span_str(tcx, tcx.def_span(did)))),
            ("vis", J::s(&format!("{:?}", tcx.visibility(did)))),
            ("variants", J::Arr(variants)),
        ]));
    }
    J::Arr(out)
}

// all type constructors occurring in a type (for the "nothing shared" closure rule)
fn ty_parts<'tcx>(tcx: TyCtxt<'tcx>, t: Ty<'tcx>) -> Vec<String> {
    let mut out = Vec::new();
    for arg in t.walk() {
        if let Some(t) = arg.as_type() {
            match t.kind() {
                ty::Adt(def, _) => out.push(format!("adt:{}", tcx.def_path_str(def.did()))),
                ty::Ref(_, _, m) => out.push(format!("ref:{}", if m.is_mut() { "mut" } else { "shared" })),
                ty::RawPtr(..) => out.push("rawptr".to_string()),
                ty::FnPtr(..) => out.push("fnptr".to_string()),
                ty::Dynamic(..) => out.push("dyn".to_string()),
                ty::Param(p) => out.push(format!("param:{}", p.name)),
                _ => {}
            }
        }
    }
    out
}

fn dump_impls<'tcx>(tcx: TyCtxt<'tcx>) -> J {
    let mut out = Vec::new();
    for id in tcx.hir_free_items() {
        let did = id.owner_id.def_id;
        if let DefKind::Impl { of_trait } = tcx.def_kind(did) {
            let self_ty = tcx.type_of(did).instantiate_identity().skip_norm_wip();
            let trait_path = if of_trait {
                let tr = tcx.impl_trait_ref(did).instantiate_identity().skip_norm_wip();
                Some((tcx.def_path_str(tr.def_id), format!("{}", tr)))
            } else {
                None
            };
            let mut methods = Vec::new();
            for item in tcx.associated_items(did).in_definition_order() {
                methods.push(J::s(item.name().as_str()));
            }
            out.push(J::obj(vec![
                ("self_ty", J::s(&format!("{}", self_ty))),
                ("self_adt", match self_ty.kind() {
                    ty::Adt(def, _) => J::s(&tcx.def_path_str(def.did())),
                    _ => J::Null,
                }),
                ("trait", match &trait_path { Some((p, _)) => J::s(p), None => J::Null }),
                ("trait_ref", match &trait_path { Some((_, p)) => J::s(p), None => J::Null }),
                ("derived", J::Bool(tcx.is_automatically_derived(did.to_def_id()))),
                ("span", J::s(&span_str(tcx, tcx.def_span(did)))),
                ("from_expansion", J::Bool(tcx.def_span(did).from_expansion())),
                ("items", J::Arr(methods)),
            ]));
        }
    }
    J::Arr(out)
}

struct UnsafeVisitor<'tcx> {
    tcx: TyCtxt<'tcx>,
    found: Vec<J>,
}

impl<'tcx> rustc_hir::intravisit::Visitor<'tcx> for UnsafeVisitor<'tcx> {
    type NestedFilter = rustc_middle::hir::nested_filter::All;
    fn maybe_tcx(&mut self) -> Self::MaybeTyCtxt {
        self.tcx
    }
    fn visit_block(&mut self, b: &'tcx rustc_hir::Block<'tcx>) {
        if let rustc_hir::BlockCheckMode::UnsafeBlock(src) = b.rules {
            self.found.push(J::obj(vec![
                ("what", J::s("unsafe-block")),
                ("user", J::Bool(matches!(src, rustc_hir::UnsafeSource::UserProvided))),
                ("from_expansion", J::Bool(b.span.from_expansion())),
                ("span", J::s(&span_str(self.tcx, b.span))),
            ]));
        }
        rustc_hir::intravisit::walk_block(self, b);
    }
}

fn dump_unsafe<'tcx>(tcx: TyCtxt<'tcx>) -> J {
    let mut v = UnsafeVisitor { tcx, found: Vec::new() };
    tcx.hir_walk_toplevel_module(&mut v);
    // unsafe fns, unsafe impls, extern blocks
    for id in tcx.hir_free_items() {
        let did = id.owner_id.def_id;
        let span = tcx.def_span(did);
        match tcx.def_kind(did) {
            DefKind::Fn => {
                if tcx.fn_sig(did).skip_binder().safety().is_unsafe() {
                    v.found.push(J::obj(vec![
                        ("what", J::s("unsafe-fn")),
                        ("user", J::Bool(true)),
                        ("from_expansion", J::Bool(span.from_expansion())),
                        ("span", J::s(&span_str(tcx, span))),
                    ]));
                }
            }
            DefKind::Impl { of_trait: true } => {
                let item = tcx.hir_item(id);
                if let rustc_hir::ItemKind::Impl(imp) = &item.kind {
                    if let Some(tr) = &imp.of_trait {
                        if tr.safety.is_unsafe() {
                            v.found.push(J::obj(vec![
                                ("what", J::s("unsafe-impl")),
                                ("user", J::Bool(true)),
                                ("from_expansion", J::Bool(span.from_expansion())),
                                ("span", J::s(&span_str(tcx, span))),
                            ]));
                        }
                    }
                }
            }
            DefKind::ForeignMod => {
                v.found.push(J::obj(vec![
                    ("what", J::s("extern-block")),
                    ("user", J::Bool(true)),
                    ("from_expansion", J::Bool(span.from_expansion())),
                    ("span", J::s(&span_str(tcx, span))),
                ]));
            }
            _ => {}
        }
    }
    for id in tcx.hir_crate_items(()).impl_items() {
        let did = id.owner_id.def_id;
        if tcx.def_kind(did) == DefKind::AssocFn {
            if tcx.fn_sig(did).skip_binder().safety().is_unsafe() {
                let span = tcx.def_span(did);
                v.found.push(J::obj(vec![
                    ("what", J::s("unsafe-fn")),
                    ("user", J::Bool(true)),
                    ("from_expansion", J::Bool(span.from_expansion())),
                    ("span", J::s(&span_str(tcx, span))),
                ]));
            }
        }
    }
    J::Arr(v.found)
}

fn dump_body<'tcx>(tcx: TyCtxt<'tcx>, did: LocalDefId, body: &Body<'tcx>) -> Vec<(&'static str, J)> {
    let def_id = did.to_def_id();
    let kind = tcx.def_kind(did);
    let mut v: Vec<(&'static str, J)> = Vec::new();
    v.push(("path", J::s(&tcx.def_path_str(def_id))));
    v.push(("kind", J::s(&format!("{:?}", kind))));
    let name = match kind {
        DefKind::Closure => "{closure}".to_string(),
        _ => tcx.item_name(def_id).to_string(),
    };
    v.push(("name", J::s(&name)));
    v.push(("span", J::s(&span_str(tcx, tcx.def_span(did)))));
    v.push(("from_expansion", J::Bool(tcx.def_span(did).from_expansion())));
    // enclosing fn for closures
    let mut parent = def_id;
    while tcx.def_kind(parent) == DefKind::Closure {
        parent = tcx.parent(parent);
    }
    v.push(("owner", J::s(&tcx.def_path_str(parent))));
    v.push(("parent", J::s(&tcx.def_path_str(tcx.parent(def_id)))));
    // impl facts
    let mut self_ty = J::Null;
    let mut self_adt = J::Null;
    let mut trait_ = J::Null;
    let mut derived = false;
    let mut vis = J::Null;
    let mut is_unsafe = false;
    if matches!(tcx.def_kind(parent), DefKind::AssocFn | DefKind::Fn) {
        vis = J::s(&format!("{:?}", tcx.visibility(parent)));
        vis = match tcx.visibility(parent) {
            ty::Visibility::Public => J::s("pub"),
            _ => vis,
        };
        is_unsafe = tcx.fn_sig(parent).skip_binder().safety().is_unsafe();
    }
    if tcx.def_kind(parent) == DefKind::AssocFn {
        let p = tcx.parent(parent);
        if let DefKind::Impl { of_trait } = tcx.def_kind(p) {
            let st = tcx.type_of(p).instantiate_identity().skip_norm_wip();
            self_ty = J::s(&format!("{}", st));
            if let ty::Adt(def, _) = st.kind() {
                self_adt = J::s(tcx.item_name(def.did()).as_str());
            }
            if of_trait {
                let tr = tcx.impl_trait_ref(p).instantiate_identity().skip_norm_wip();
                trait_ = J::s(&tcx.def_path_str(tr.def_id));
                v.push(("trait_ref", J::s(&format!("{}", tr))));
            }
            derived = tcx.is_automatically_derived(p);
        }
    }
    v.push(("self_ty", self_ty));
    v.push(("self_adt", self_adt));
    v.push(("trait", trait_));
    v.push(("derived", J::Bool(derived)));
    v.push(("vis", vis));
    v.push(("unsafe", J::Bool(is_unsafe)));
    // test functions (cfg(test) build): #[test] leaves a marker const; we use the rustc_test_marker attr absence,
    // so simply record whether the span's file/line lies inside a `#[cfg(test)]`-only item is not available here;
    // the engine decides "test body" by reachability from API entries instead.
    if kind == DefKind::Closure {
        let mut ups = Vec::new();
        for cap in tcx.closure_captures(did) {
            ups.push(J::obj(vec![
                ("name", J::s(&cap.to_string(tcx))),
                ("by_ref", J::Bool(matches!(cap.info.capture_kind, ty::UpvarCapture::ByRef(_)))),
                ("mutbl", J::Bool(matches!(cap.info.capture_kind, ty::UpvarCapture::ByRef(ty::BorrowKind::Mutable | ty::BorrowKind::UniqueImmutable)))),
            ]));
        }
        v.push(("upvars", J::Arr(ups)));
    }
    v.extend(dump_body_inner_vec(tcx, did, body));
    v
}

fn dump_body_inner<'tcx>(tcx: TyCtxt<'tcx>, did: LocalDefId, body: &Body<'tcx>) -> J {
    J::obj(dump_body_inner_vec(tcx, did, body))
}

fn dump_body_inner_vec<'tcx>(tcx: TyCtxt<'tcx>, did: LocalDefId, body: &Body<'tcx>) -> Vec<(&'static str, J)> {
    let cx = Cx { tcx, body, did, env: ty::TypingEnv::post_analysis(tcx, did) };
    let mut v: Vec<(&'static str, J)> = Vec::new();
    v.push(("arg_count", J::Num(body.arg_count as i128)));
    let mut locals = Vec::new();
    for (_l, decl) in body.local_decls.iter_enumerated() {
        locals.push(J::obj(vec![
            ("ty", J::s(&format!("{}", decl.ty))),
            ("mut", J::Bool(decl.mutability.is_mut())),
            ("ty_adt", match decl.ty.peel_refs().kind() {
                ty::Adt(def, _) => J::s(tcx.item_name(def.did()).as_str()),
                _ => J::Null,
            }),
        ]));
    }
    v.push(("locals", J::Arr(locals)));
    let mut dbg = Vec::new();
    for vdi in &body.var_debug_info {
        if let mir::VarDebugInfoContents::Place(p) = &vdi.value {
            dbg.push(J::obj(vec![
                ("name", J::s(vdi.name.as_str())),
                ("place", cx.place(p)),
                ("arg", match vdi.argument_index { Some(i) => J::Num(i as i128), None => J::Null }),
            ]));
        }
    }
    v.push(("debug", J::Arr(dbg)));
    let mut blocks = Vec::new();
    for (_bb, data) in body.basic_blocks.iter_enumerated() {
        let mut stmts = Vec::new();
        for st in &data.statements {
            if let Some(j) = cx.stmt(st) {
                stmts.push(j);
            }
        }
        let term = data.terminator();
        blocks.push(J::obj(vec![
            ("cleanup", J::Bool(data.is_cleanup)),
            ("stmts", J::Arr(stmts)),
            ("term", cx.term(term)),
        ]));
    }
    v.push(("blocks", J::Arr(blocks)));
    v
}

struct Cx<'a, 'tcx> {
    tcx: TyCtxt<'tcx>,
    body: &'a Body<'tcx>,
    #[allow(dead_code)]
    did: LocalDefId,
    env: ty::TypingEnv<'tcx>,
}

impl<'a, 'tcx> Cx<'a, 'tcx> {
    fn line(&self, sp: Span) -> J {
        let sm = self.tcx.sess.source_map();
        // for macro-expanded code report the outermost call site
        let sp2 = sp.source_callsite();
        let lo = sm.lookup_char_pos(sp2.lo());
        J::Num(lo.line as i128)
    }

    fn place(&self, p: &Place<'tcx>) -> J {
        let tcx = self.tcx;
        let mut proj = Vec::new();
        let mut pty = mir::PlaceTy::from_ty(self.body.local_decls[p.local].ty);
        for elem in p.projection.iter() {
            let j = match elem {
                PlaceElem::Deref => J::obj(vec![("k", J::s("deref"))]),
                PlaceElem::Field(f, fty) => {
                    let (owner, name) = match pty.ty.kind() {
                        ty::Adt(def, _) => {
                            let vidx = pty.variant_index.unwrap_or(rustc_abi::FIRST_VARIANT);
                            let var = def.variant(vidx);
                            let fname = var.fields[f].name.to_string();
                            let oname = if def.is_enum() {
                                format!("{}::{}", tcx.item_name(def.did()), var.name)
                            } else {
                                tcx.item_name(def.did()).to_string()
                            };
                            (oname, fname)
                        }
                        ty::Closure(..) => ("{closure}".to_string(), format!("{}", f.index())),
                        ty::Tuple(..) => ("(tuple)".to_string(), format!("{}", f.index())),
                        _ => ("?".to_string(), format!("{}", f.index())),
                    };
                    J::obj(vec![
                        ("k", J::s("field")),
                        ("owner", J::s(&owner)),
                        ("name", J::s(&name)),
                        ("idx", J::Num(f.index() as i128)),
                        ("ty", J::s(&format!("{}", fty))),
                    ])
                }
                PlaceElem::Index(l) => J::obj(vec![
                    ("k", J::s("index")),
                    ("local", J::Num(l.index() as i128)),
                    ("base_ty", J::s(&format!("{}", pty.ty))),
                ]),
                PlaceElem::ConstantIndex { offset, min_length, from_end } => J::obj(vec![
                    ("k", J::s("constindex")),
                    ("offset", J::Num(offset as i128)),
                    ("min_length", J::Num(min_length as i128)),
                    ("from_end", J::Bool(from_end)),
                ]),
                PlaceElem::Subslice { from, to, from_end } => J::obj(vec![
                    ("k", J::s("subslice")),
                    ("from", J::Num(from as i128)),
                    ("to", J::Num(to as i128)),
                    ("from_end", J::Bool(from_end)),
                ]),
                PlaceElem::Downcast(name, vidx) => {
                    let vname = match pty.ty.kind() {
                        ty::Adt(def, _) => def.variant(vidx).name.to_string(),
                        _ => name.map(|s| s.to_string()).unwrap_or_default(),
                    };
                    let adt = match pty.ty.kind() {
                        ty::Adt(def, _) => tcx.item_name(def.did()).to_string(),
                        _ => "?".to_string(),
                    };
                    J::obj(vec![
                        ("k", J::s("downcast")),
                        ("adt", J::s(&adt)),
                        ("variant", J::s(&vname)),
                        ("vidx", J::Num(vidx.index() as i128)),
                    ])
                }
                _ => J::obj(vec![("k", J::s("other")), ("text", J::s(&format!("{:?}", elem)))]),
            };
            proj.push(j);
            pty = pty.projection_ty(tcx, elem);
        }
        J::obj(vec![
            ("local", J::Num(p.local.index() as i128)),
            ("proj", J::Arr(proj)),
            ("ty", J::s(&format!("{}", pty.ty))),
        ])
    }

    fn operand(&self, op: &Operand<'tcx>) -> J {
        match op {
            Operand::Copy(p) => J::obj(vec![("k", J::s("copy")), ("place", self.place(p))]),
            Operand::Move(p) => J::obj(vec![("k", J::s("move")), ("place", self.place(p))]),
            Operand::Constant(c) => self.constant(c),
            #[allow(unreachable_patterns)]
            _ => J::obj(vec![("k", J::s("other")), ("text", J::s(&format!("{:?}", op)))]),
        }
    }

    fn constant(&self, c: &mir::ConstOperand<'tcx>) -> J {
        let tcx = self.tcx;
        let ty = c.const_.ty();
        let mut v = vec![
            ("k", J::s("const")),
            ("ty", J::s(&format!("{}", ty))),
            ("text", J::s(&format!("{}", c.const_))),
        ];
        if let ty::FnDef(def_id, args) = ty.kind() {
            v.push(("fn", J::s(&tcx.def_path_str(*def_id))));
            v.push(("fn_args", J::s(&format!("{:?}", args))));
            if let Some(r) = self.resolve(*def_id, args) {
                v.push(("fn_resolved", J::s(&tcx.def_path_str(r))));
            }
        }
        if let mir::Const::Unevaluated(u, _) = &c.const_ {
            if let Some(p) = u.promoted {
                v.push(("promoted", J::Num(p.index() as i128)));
            } else {
                v.push(("const_path", J::s(&tcx.def_path_str(u.def))));
            }
        }
        if let mir::Const::Val(mir::ConstValue::Scalar(rustc_middle::mir::interpret::Scalar::Ptr(p, _)), _) = &c.const_ {
            let (prov, _off) = p.into_raw_parts();
            if let Some(rustc_middle::mir::interpret::GlobalAlloc::Static(sdid)) = tcx.try_get_global_alloc(prov.alloc_id()) {
                v.push(("static", J::s(&tcx.def_path_str(sdid))));
            }
        }
        if let ty::Ref(_, inner, _) = ty.kind() {
            if inner.is_str() {
                if let Ok(val) = c.const_.eval(tcx, self.env, rustc_span::DUMMY_SP) {
                    if let Some(bytes) = val.try_get_slice_bytes_for_diagnostics(tcx) {
                        if let Ok(st) = std::str::from_utf8(bytes) {
                            v.push(("str", J::s(st)));
                        }
                    }
                }
            }
        }
        // small arrays of integers (`const RESERVED: [usize; 2] = [0, 1]`): the element values
        if let ty::Array(elem, len) = ty.kind() {
            let esz: Option<(usize, bool)> = match elem.kind() {
                ty::Uint(u) => Some((u.bit_width().unwrap_or(64) as usize / 8, false)),
                ty::Int(i) => Some((i.bit_width().unwrap_or(64) as usize / 8, true)),
                ty::Char => Some((4, false)),
                ty::Bool => Some((1, false)),
                _ => None,
            };
            if let (Some((esz, signed)), Some(n)) = (esz, len.try_to_target_usize(tcx)) {
                if n <= 32 {
                    if let Ok(mir::ConstValue::Indirect { alloc_id, offset }) = c.const_.eval(tcx, self.env, rustc_span::DUMMY_SP) {
                        if let rustc_middle::mir::interpret::GlobalAlloc::Memory(a) = tcx.global_alloc(alloc_id) {
                            let a = a.inner();
                            let start = offset.bytes() as usize;
                            let end = start + esz * n as usize;
                            if end <= a.len() {
                                let bytes = a.inspect_with_uninit_and_ptr_outside_interpreter(start..end);
                                let mut els = vec![];
                                for i in 0..n as usize {
                                    let mut x: u128 = 0;
                                    for j in 0..esz {
                                        x |= (bytes[i * esz + j] as u128) << (8 * j);
                                    }
                                    let val: i128 = if signed && esz < 16 && (x >> (8 * esz - 1)) & 1 == 1 {
                                        (x as i128) - (1i128 << (8 * esz))
                                    } else {
                                        x as i128
                                    };
                                    els.push(J::Num(val));
                                }
                                v.push(("array_vals", J::Arr(els)));
                            }
                        }
                    }
                }
            }
        }
        match ty.kind() {
            ty::Bool | ty::Int(_) | ty::Uint(_) | ty::Char => {
                if let Some(si) = c.const_.try_eval_scalar_int(tcx, self.env) {
                    let bits = si.to_bits_unchecked();
                    let val: i128 = match ty.kind() {
                        ty::Int(_) => {
                            let size = si.size();
                            size.sign_extend(bits) as i128
                        }
                        _ => bits as i128,
                    };
                    v.push(("val", J::Num(val)));
                }
            }
            _ => {}
        }
        J::obj(v)
    }

    fn resolve(&self, def_id: DefId, args: ty::GenericArgsRef<'tcx>) -> Option<DefId> {
        match ty::Instance::try_resolve(self.tcx, self.env, def_id, args) {
            Ok(Some(inst)) => Some(inst.def_id()),
            _ => None,
        }
    }

    fn rvalue(&self, rv: &Rvalue<'tcx>) -> J {
        let tcx = self.tcx;
        match rv {
            Rvalue::Use(op, ..) => J::obj(vec![("k", J::s("use")), ("op", self.operand(op))]),
            Rvalue::Repeat(op, n) => J::obj(vec![
                ("k", J::s("repeat")),
                ("op", self.operand(op)),
                ("n", J::s(&format!("{}", n))),
            ]),
            Rvalue::Ref(_, bk, p) => J::obj(vec![
                ("k", J::s("ref")),
                ("mut", J::Bool(matches!(bk, BorrowKind::Mut { .. }))),
                ("place", self.place(p)),
            ]),
            Rvalue::RawPtr(kind, p) => J::obj(vec![
                ("k", J::s("rawptr")),
                ("mut", J::Bool(format!("{:?}", kind).contains("Mut"))),
                ("place", self.place(p)),
            ]),
            Rvalue::Cast(kind, op, ty) => J::obj(vec![
                ("k", J::s("cast")),
                ("kind", J::s(&format!("{:?}", kind))),
                ("op", self.operand(op)),
                ("ty", J::s(&format!("{}", ty))),
            ]),
            Rvalue::BinaryOp(bop, ops) => J::obj(vec![
                ("k", J::s("binop")),
                ("op", J::s(&format!("{:?}", bop))),
                ("l", self.operand(&ops.0)),
                ("r", self.operand(&ops.1)),
            ]),
            Rvalue::UnaryOp(uop, op) => J::obj(vec![
                ("k", J::s("unop")),
                ("op", J::s(&format!("{:?}", uop))),
                ("x", self.operand(op)),
            ]),
            Rvalue::Discriminant(p) => {
                let pty = p.ty(self.body, tcx).ty;
                let adt = match pty.kind() {
                    ty::Adt(def, _) => tcx.item_name(def.did()).to_string(),
                    _ => format!("{}", pty),
                };
                let mut variants = Vec::new();
                if let ty::Adt(def, _) = pty.kind() {
                    if def.is_enum() {
                        for (vidx, discr) in def.discriminants(tcx) {
                            variants.push(J::Arr(vec![
                                J::Num(discr.val as i128),
                                J::s(def.variant(vidx).name.as_str()),
                            ]));
                        }
                    }
                }
                J::obj(vec![
                    ("k", J::s("discr")),
                    ("place", self.place(p)),
                    ("adt", J::s(&adt)),
                    ("variants", J::Arr(variants)),
                ])
            }
            Rvalue::Aggregate(kind, ops) => {
                let mut v = vec![("k", J::s("aggregate"))];
                let mut fields: Vec<J> = Vec::new();
                match &**kind {
                    AggregateKind::Adt(def_id, vidx, _args, _, _) => {
                        let def = tcx.adt_def(*def_id);
                        let var = def.variant(*vidx);
                        v.push(("agg", J::s("adt")));
                        v.push(("adt", J::s(tcx.item_name(*def_id).as_str())));
                        v.push(("variant", J::s(var.name.as_str())));
                        for f in &var.fields {
                            fields.push(J::s(f.name.as_str()));
                        }
                    }
                    AggregateKind::Closure(def_id, _) => {
                        v.push(("agg", J::s("closure")));
                        v.push(("closure", J::s(&tcx.def_path_str(*def_id))));
                    }
                    AggregateKind::Tuple => v.push(("agg", J::s("tuple"))),
                    AggregateKind::Array(_) => v.push(("agg", J::s("array"))),
                    other => {
                        v.push(("agg", J::s("other")));
                        v.push(("text", J::s(&format!("{:?}", other))));
                    }
                }
                v.push(("fields", J::Arr(fields)));
                v.push(("ops", J::Arr(ops.iter().map(|o| self.operand(o)).collect())));
                J::obj(v)
            }
            Rvalue::CopyForDeref(p) => J::obj(vec![
                ("k", J::s("use")),
                ("op", J::obj(vec![("k", J::s("copy")), ("place", self.place(p))])),
            ]),
            other => J::obj(vec![("k", J::s("other")), ("text", J::s(&format!("{:?}", other)))]),
        }
    }

    fn stmt(&self, st: &mir::Statement<'tcx>) -> Option<J> {
        let ln = self.line(st.source_info.span);
        let exp = J::Bool(st.source_info.span.from_expansion());
        match &st.kind {
            StatementKind::Assign(b) => {
                let (p, rv) = &**b;
                Some(J::obj(vec![
                    ("k", J::s("assign")),
                    ("lhs", self.place(p)),
                    ("rv", self.rvalue(rv)),
                    ("line", ln),
                    ("exp", exp),
                ]))
            }
            StatementKind::SetDiscriminant { place, variant_index } => Some(J::obj(vec![
                ("k", J::s("setdiscr")),
                ("lhs", self.place(place)),
                ("vidx", J::Num(variant_index.index() as i128)),
                ("line", ln),
                ("exp", exp),
            ])),
            StatementKind::StorageLive(_)
            | StatementKind::StorageDead(_)
            | StatementKind::Nop
            | StatementKind::FakeRead(..)
            | StatementKind::PlaceMention(..)
            | StatementKind::AscribeUserType(..)
            | StatementKind::Coverage(..)
            | StatementKind::ConstEvalCounter => None,
            other => Some(J::obj(vec![
                ("k", J::s("other")),
                ("text", J::s(&format!("{:?}", other))),
                ("line", ln),
                ("exp", exp),
            ])),
        }
    }

    fn bb(&self, b: BasicBlock) -> J {
        J::Num(b.index() as i128)
    }

    fn unwind(&self, u: &UnwindAction) -> J {
        match u {
            UnwindAction::Cleanup(b) => self.bb(*b),
            _ => J::Null,
        }
    }

    fn term(&self, t: &mir::Terminator<'tcx>) -> J {
        let tcx = self.tcx;
        let ln = self.line(t.source_info.span);
        let exp = J::Bool(t.source_info.span.from_expansion());
        let mut v: Vec<(&'static str, J)> = Vec::new();
        match &t.kind {
            TerminatorKind::Goto { target } => {
                v.push(("k", J::s("goto")));
                v.push(("target", self.bb(*target)));
            }
            TerminatorKind::SwitchInt { discr, targets } => {
                v.push(("k", J::s("switch")));
                v.push(("op", self.operand(discr)));
                let mut ts = Vec::new();
                for (val, bb) in targets.iter() {
                    ts.push(J::Arr(vec![J::Num(val as i128), self.bb(bb)]));
                }
                v.push(("targets", J::Arr(ts)));
                v.push(("otherwise", self.bb(targets.otherwise())));
                v.push(("op_ty", J::s(&format!("{}", discr.ty(self.body, tcx)))));
            }
            TerminatorKind::Return => v.push(("k", J::s("return"))),
            TerminatorKind::Unreachable => v.push(("k", J::s("unreachable"))),
            TerminatorKind::UnwindResume => v.push(("k", J::s("resume"))),
            TerminatorKind::UnwindTerminate(_) => v.push(("k", J::s("terminate"))),
            TerminatorKind::Drop { place, target, unwind, .. } => {
                v.push(("k", J::s("drop")));
                v.push(("place", self.place(place)));
                v.push(("target", self.bb(*target)));
                v.push(("unwind", self.unwind(unwind)));
            }
            TerminatorKind::Assert { cond, expected, msg, target, unwind } => {
                v.push(("k", J::s("assert")));
                v.push(("cond", self.operand(cond)));
                v.push(("expected", J::Bool(*expected)));
                let kind = match &**msg {
                    mir::AssertKind::BoundsCheck { .. } => "bounds".to_string(),
                    mir::AssertKind::Overflow(op, ..) => format!("overflow:{:?}", op),
                    mir::AssertKind::OverflowNeg(_) => "overflow:Neg".to_string(),
                    mir::AssertKind::DivisionByZero(_) => "div0".to_string(),
                    mir::AssertKind::RemainderByZero(_) => "rem0".to_string(),
                    other => format!("{:?}", other).chars().take(40).collect(),
                };
                v.push(("kind", J::s(&kind)));
                v.push(("target", self.bb(*target)));
                v.push(("unwind", self.unwind(unwind)));
            }
            TerminatorKind::Call { func, args, destination, target, unwind, fn_span, .. } => {
                v.push(("k", J::s("call")));
                let mut callee: Vec<(&'static str, J)> = Vec::new();
                if let Some((def_id, gargs)) = func.const_fn_def() {
                    let decl = tcx.def_path_str(def_id);
                    let resolved = self.resolve(def_id, gargs);
                    let rid = resolved.unwrap_or(def_id);
                    callee.push(("decl", J::s(&decl)));
                    callee.push(("path", J::s(&tcx.def_path_str(rid))));
                    callee.push(("resolved", J::Bool(resolved.is_some())));
                    callee.push(("krate", J::s(tcx.crate_name(rid.krate).as_str())));
                    callee.push(("local", J::Bool(rid.is_local())));
                    callee.push(("gargs", J::s(&format!("{:?}", gargs))));
                    let dk = tcx.def_kind(rid);
                    callee.push(("kind", J::s(&format!("{:?}", dk))));
                    let name = match dk {
                        DefKind::Closure => "{closure}".to_string(),
                        _ => tcx.opt_item_name(rid).map(|s| s.to_string()).unwrap_or_default(),
                    };
                    callee.push(("name", J::s(&name)));
                    if matches!(dk, DefKind::Fn | DefKind::AssocFn) {
                        let us = tcx.fn_sig(rid).skip_binder().safety().is_unsafe();
                        callee.push(("unsafe", J::Bool(us)));
                        // self type of the impl the resolved method lives in
                        if dk == DefKind::AssocFn {
                            let p = tcx.parent(rid);
                            if let DefKind::Impl { of_trait } = tcx.def_kind(p) {
                                let st = tcx.type_of(p).instantiate_identity().skip_norm_wip();
                                callee.push(("impl_self", J::s(&format!("{}", st))));
                                if let ty::Adt(def, _) = st.kind() {
                                    callee.push(("impl_adt", J::s(&tcx.def_path_str(def.did()))));
                                }
                                if of_trait {
                                    let tr = tcx.impl_trait_ref(p).instantiate_identity().skip_norm_wip();
                                    callee.push(("impl_trait", J::s(&tcx.def_path_str(tr.def_id))));
                                }
                                callee.push(("impl_derived", J::Bool(tcx.is_automatically_derived(p))));
                            } else if tcx.def_kind(p) == DefKind::Trait {
                                callee.push(("trait_default", J::s(&tcx.def_path_str(p))));
                            }
                        }
                    }
                    // receiver / first generic type (for trait calls like <T as Trait>::m)
                    if let Some(first) = gargs.types().next() {
                        callee.push(("self_arg_ty", J::s(&format!("{}", first))));
                    }
                } else {
                    callee.push(("indirect", self.operand(func)));
                }
                v.push(("callee", J::obj(callee)));
                v.push(("args", J::Arr(args.iter().map(|a| self.operand(&a.node)).collect())));
                v.push(("dest", self.place(destination)));
                v.push(("target", match target { Some(b) => self.bb(*b), None => J::Null }));
                v.push(("unwind", self.unwind(unwind)));
                v.push(("fn_exp", J::Bool(fn_span.from_expansion())));
            }
            TerminatorKind::FalseEdge { real_target, .. } => {
                v.push(("k", J::s("goto")));
                v.push(("target", self.bb(*real_target)));
            }
            TerminatorKind::FalseUnwind { real_target, .. } => {
                v.push(("k", J::s("goto")));
                v.push(("target", self.bb(*real_target)));
            }
            other => {
                v.push(("k", J::s("other")));
                v.push(("text", J::s(&format!("{:?}", other))));
            }
        }
        v.push(("line", ln));
        v.push(("exp", exp));
        J::obj(v)
    }
}

"""Runs the fact driver over /repo (or a scratch copy) for one build configuration and returns
the path of the fresh fact file.  Fails closed if the driver did not run."""
import fcntl
import glob
import os
import shutil
import subprocess
import sys
import time
import uuid

VERIF = os.path.dirname(os.path.dirname(os.path.abspath(__file__)))
WORK = os.path.join(VERIF, ".work")
DRIVER_DIR = os.path.join(VERIF, "sa", "driver")
DRIVER_TARGET = os.path.join(WORK, "driver-target")
DRIVER_BIN = os.path.join(DRIVER_TARGET, "debug", "sodg-facts")
REPO = os.environ.get("SODG_REPO", "/repo")

CONFIGS = {
    # name: (cargo args, extra rustflags)
    "dev": (["--lib"], ""),
    "release": (["--lib", "--release"], ""),
    "allfeatures": (["--lib", "--all-features"], ""),
    "test": (["--lib", "--profile", "test"], ""),
}


class DriverError(Exception):
    pass


def env_base():
    env = dict(os.environ)
    env["CARGO_NET_OFFLINE"] = "true"
    return env


def sysroot_lib():
    out = subprocess.run(["rustc", "+nightly", "--print", "sysroot"], capture_output=True, text=True, env=env_base())
    if out.returncode != 0:
        raise DriverError("nightly toolchain not available: " + out.stderr)
    return os.path.join(out.stdout.strip(), "lib")


def driver_sources_mtime():
    m = 0
    for root, _, files in os.walk(DRIVER_DIR):
        for f in files:
            m = max(m, os.path.getmtime(os.path.join(root, f)))
    return m


def build_driver(force=False):
    os.makedirs(WORK, exist_ok=True)
    if not force and os.path.exists(DRIVER_BIN) and os.path.getmtime(DRIVER_BIN) >= driver_sources_mtime():
        return
    env = env_base()
    env["CARGO_TARGET_DIR"] = DRIVER_TARGET
    p = subprocess.run(["cargo", "build", "--offline"], cwd=DRIVER_DIR, env=env, capture_output=True, text=True)
    if p.returncode != 0 or not os.path.exists(DRIVER_BIN):
        raise DriverError("driver build failed:\n" + p.stderr[-4000:])


def run_driver(config="dev", repo=None, tag=None):
    """returns (fact_file_path, seconds).  `repo` defaults to /repo; `tag` separates target dirs of scratch copies"""
    repo = repo or REPO
    cargo_args, extra_flags = CONFIGS[config]
    build_driver()
    tname = "target-%s%s" % (config, ("-" + tag) if tag else "")
    target = os.path.join(WORK, tname)
    out = os.path.join(WORK, "facts-%s%s" % (config, ("-" + tag) if tag else ""))
    os.makedirs(target, exist_ok=True)
    lock = open(os.path.join(WORK, "lock-" + tname), "w")
    fcntl.flock(lock, fcntl.LOCK_EX)
    try:
        shutil.rmtree(out, ignore_errors=True)
        os.makedirs(out)
        # cargo's freshness cache would skip the wrapper: drop the sodg fingerprints
        for prof in os.listdir(target):
            fp = os.path.join(target, prof, ".fingerprint")
            if os.path.isdir(fp):
                for d in glob.glob(os.path.join(fp, "sodg-*")):
                    shutil.rmtree(d, ignore_errors=True)
        nonce = uuid.uuid4().hex
        env = env_base()
        env["LD_LIBRARY_PATH"] = sysroot_lib() + (":" + env["LD_LIBRARY_PATH"] if env.get("LD_LIBRARY_PATH") else "")
        env["RUSTFLAGS"] = ("-Zmir-opt-level=0 --cap-lints=warn " + extra_flags).strip()
        env["RUSTC_WORKSPACE_WRAPPER"] = DRIVER_BIN
        env["CARGO_TARGET_DIR"] = target
        env["SODG_FACTS_OUT"] = out
        env["SODG_FACTS_NONCE"] = nonce
        env.pop("RUSTC_WRAPPER", None)
        t0 = time.time()
        cmd = ["cargo", "+nightly", "check", "--offline", "--manifest-path", os.path.join(repo, "Cargo.toml")] + cargo_args
        p = subprocess.run(cmd, cwd=repo, env=env, capture_output=True, text=True)
        dt = time.time() - t0
        if p.returncode != 0:
            raise DriverError("analysis build of %s (%s) failed:\n%s" % (repo, config, p.stderr[-6000:]))
        files = sorted(glob.glob(os.path.join(out, "sodg-*.json")))
        want_test = config == "test"
        chosen = None
        for f in files:
            is_test = os.path.basename(f).startswith("sodg-test-")
            if is_test == want_test:
                chosen = f
        if chosen is None:
            raise DriverError("the fact driver did not run for config %s (no fact file in %s); stderr:\n%s"
                              % (config, out, p.stderr[-2000:]))
        with open(chosen) as fh:
            head = fh.read(400)
        if nonce not in head:
            raise DriverError("stale fact file (nonce mismatch) for config %s" % config)
        if tag is None:
            # checks of different properties may run at the same time: the next run for this configuration wipes `out` as soon as
            # we release the lock, possibly before our caller has read the file.  Hand out a private copy (made under the lock).
            priv_dir = os.path.join(WORK, "facts-run")
            os.makedirs(priv_dir, exist_ok=True)
            now = time.time()
            for old in glob.glob(os.path.join(priv_dir, "*.json")):
                try:
                    if now - os.path.getmtime(old) > 1800:
                        os.remove(old)
                except OSError:
                    pass
            priv = os.path.join(priv_dir, "%s-%d-%s.json" % (config, os.getpid(), nonce[:8]))
            shutil.copyfile(chosen, priv)
            chosen = priv
        return chosen, dt
    finally:
        fcntl.flock(lock, fcntl.LOCK_UN)
        lock.close()


if __name__ == "__main__":
    cfg = sys.argv[1] if len(sys.argv) > 1 else "dev"
    if cfg == "setup":
        build_driver()
        for c in ("dev",):
            f, dt = run_driver(c)
            print("setup: driver built, %s facts in %.1fs -> %s" % (c, dt, f))
    else:
        f, dt = run_driver(cfg)
        print(f, "%.1fs" % dt)

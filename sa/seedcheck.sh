#!/bin/bash
# official run of the registered checks against each seeded change applied to /repo itself:
#   git -C /repo apply <patch>; ./check <target property> quick; git -C /repo checkout -- . (and removal of files the patch added)
# writes seeded/<id>/official_run.txt; afterwards re-runs every quick check on the clean tree so that the evidence is that of the clean tree.
cd "$(dirname "$0")/.."
[ -z "$(git -C /repo status --porcelain --untracked-files=no)" ] || { echo "/repo is not clean"; exit 2; }
for d in seeded/*/; do
  id=$(basename $d); prop=${id%-*}
  git -C /repo apply "$PWD/$d/patch.diff" || { echo "$id: patch does not apply" | tee $d/official_run.txt; continue; }
  { echo "\$ git -C /repo apply seeded/$id/patch.diff; ./check $prop quick"; ./check $prop quick; echo "exit=$?"; } > $d/official_run.txt 2>&1
  git -C /repo checkout -- . ; git -C /repo clean -fdq -e target
  echo "$id: $(grep -c '^VIOLATION' $d/official_run.txt) violation line(s), $(tail -1 $d/official_run.txt)"
done
for i in $(seq -w 1 20); do ./check C$i quick | tail -1; done

"""property -> rules, explanation, trusted base"""
import functools
import gc_rules as G
import listing as L
import label as LB
import hexr as H
import nx as NX
import sz as SZ
import ms as MS
import rw as RW
import mg as MG
import sl as SL
import sc as SC

CONTAINERS = "emap 0.0.13 / micromap 0.0.19 / microstack 0.0.7 as audited (DESIGN §3)"
HAND = "hand argument DESIGN §5.0: rules ⇒ invariants I1–I3 ⇒ statement"
RUSTC = "rustc front end (type check, MIR construction) and the engine's reading of MIR"

NOT_APPLICABLE = {}

PROPS = {
    "C01": {
        "claim": "Decides, on every CFG path of every function body of the crate (any history, by induction over calls), the structural rules GC1, GC2, GC3, GC4, GC5, GC7a, GC9; together with the hand argument of DESIGN §5.0 (rules ⇒ invariants I1–I3 ⇒ statement) this is the whole statement under the property's preconditions. Static, no execution; no bound on history length, ids, N or capacity.",
        "note": "Trusted: rustc front end + engine's reading of MIR; container crates at their locked versions as audited (DESIGN §3); the hand argument rules ⇒ invariants ⇒ statement. merge() on non-tree input is exempt (GC1 scoped exemption). MG2 is run as a premise: merge() changes the graph only through add/bind/put/next_id (in particular it performs no consuming read), so histories that contain merges are histories of those calls.",
        "technique": 'MIR who-may-write + guard/dominance rules (custom rustc driver)',
        "rules": [("GC0", G.gc0), ("GC1", G.gc1), ("GC2", G.gc2), ("GC3", G.gc3), ("GC4", G.gc4), ("GC5", G.gc5),
                  ("GC7a", functools.partial(G.gc7, part="a")), ("GC9", G.gc9), ("MG2", MG.mg2)],
        "explanation": "GC safety via invariants I1–I3: removal sites only in data() (GC1), guarded by first read ∧ grouped ∧ "
                       "counter==0 over the reader's member list (GC2), read arms (GC3), counter == number of unread data (GC4, needed for "
                       "'no removed vertex holds an unread datum'), membership pairing in bind (GC5), "
                       "add() never touches a present vertex (GC7a), no slot removal (GC9); all CFG paths of all bodies.",
        "trusted": [RUSTC, CONTAINERS, HAND],
        "assumptions": ["capacity limits and documented preconditions of the property", "merge restricted to trees (GC1 scoped exemption)"],
    },
    "C02": {
        "claim": 'Decides the counter-pairing rules GC4 in both directions (every +1 is a put-gain or join-gain, every −1 a first read of a grouped vertex, and conversely), GC3, GC5, GC6b, GC9 on all CFG paths; with DESIGN §5.0 this gives counter == number of unread data of the group after every call, hence exact collection and no underflow. LM: the documented limits are available in the code (both group tables are created with a constant of at least 16 slots = 2 reserved + 14 groups, a member list holds at least 16 vertices), so a call within the limits is not stopped by a smaller table; whether a history stays within the limits is a precondition.',
        "note": 'Trusted: as C01. Staying within the capacity limits (16 members, 14 groups) is a precondition; that the code provides them is decided (LM).',
        "technique": 'MIR pairing / co-occurrence rules on counter and tag events',
        "rules": [("GC3", G.gc3), ("GC4", G.gc4), ("GC5", G.gc5), ("GC6b", functools.partial(G.gc6, parts="b")), ("GC9", G.gc9), ("LM", G.limits), ("MG2", MG.mg2)],
        "explanation": "GC exactness: the unread counter of a group changes by exactly the put-gain / join-gain / read-loss "
                       "transitions (GC4, both directions), tags and member lists change together (GC5), the destroyed list is "
                       "cleared (GC6b), read arms (GC3), slot totality (GC9).",
        "trusted": [RUSTC, CONTAINERS, HAND],
        "assumptions": ["capacity limits (16 members, 14 groups) are preconditions"],
    },
    "C04": {
        "claim": 'Decides GC7 completely: the tag write in add() is guarded by the pre-state tag being 0, the reset of edges, data and read status co-occurs with it on exactly the same paths, and no other path of add() writes anything; add() contains no always-compiled assertion about the vacant slot other than the documented preconditions (and "holds no unread datum", which counter exactness gives), so re-creating a collected id completes. CL1 (a clone has every slot of the vertex table of the original) is run as a premise: the statement holds on clones as well. GC2 (a collection marks every member of the group absent) is run as a premise of the clause about ids whose vertex was collected: such an id is absent. XP1 (keys/len/is_empty instances) is run as a premise: "present" as observed through keys(), len() and is_empty() is "tag != 0", exactly — the state add() establishes. GC9 is run as a premise: every id below the capacity has a slot for add() to fill.',
        "note": 'Trusted: rustc front end + engine; micromap::Map::new / Hex::empty produce blank values (read).',
        "technique": 'MIR guard + co-occurrence rule on add()',
        "rules": [("GC7", functools.partial(G.gc7, part="abc")), ("CL1/CL4", NX.cl1), ("GC2", G.gc2),
                  ("XP1", functools.partial(L.xp1, only=("Sodg::keys", "Sodg::len"))), ("GC9", G.gc9)],
        "explanation": "add(): tag := 1 only under pre-state tag ∈ {0}, with edges/data/read status reset on the same paths; "
                       "no effect on a present vertex.",
        "trusted": [RUSTC, CONTAINERS],
        "assumptions": [],
    },
    "C06": {
        "claim": "Decides GC6a–d and GC5: a new group only takes a slot tested empty by an unrestricted scan of all slots, a destroyed group's list is cleared on every returning path of the same call, the constructor installs non-empty sentinels at 0 and 1 and zeroed tables, and no other function touches the tables; with I1–I3 a slot is free iff its list is empty, for histories of any length. GC2: the loop that removes the members of a dying group is not left before the list is exhausted. GC3 (a first read marks the datum as read on every path) and GC4 (counter pairing) are run as premises: a counter that stays too high keeps a dead group's slot occupied. LM: the tables provide the documented 14 groups of 16 members.",
        "note": "Trusted: as C01; 'fewer than 14 groups alive' is the precondition under which the search succeeds.",
        "technique": 'MIR who-may-call + guard + post-dominance rules on the slot table',
        "rules": [("GC5", G.gc5), ("GC6", functools.partial(G.gc6, parts="abcd")), ("GC2", G.gc2), ("GC3", G.gc3), ("GC4", G.gc4), ("LM", G.limits)],
        "explanation": "slot discipline: new groups take a slot checked empty over an unrestricted scan (GC6a), destruction clears "
                       "the list on all paths (GC6b), sentinels and zeroed tables in the constructor (GC6c), nobody else touches "
                       "the tables (GC6d), membership pairing (GC5); GC2/GC4 give I2 (a destroyed group's counter is 0 again).",
        "trusted": [RUSTC, CONTAINERS, HAND],
        "assumptions": ["fewer than 14 groups alive is the precondition under which the search succeeds"],
    },
    "C18": {
        "claim": "Decides the structural clauses XP1–XP4 of to_xml()/to_dot(): per-vertex emission is control-dependent on the slot's tag being non-zero (sibling rule over keys / Debug / to_xml / to_dot), vertices come from the ascending store iteration or a sort by id and edges pass a sort by label, one edge entry per item of the vertex's edge map with that item's label and target and no condition on the edge, and the data entry is guarded by persistence ∉ {Empty} (nothing narrower) and prints that vertex's data; neither the vertex walk nor the edge walk is left early (no break / success return inside). Does not decide well-formedness/escaping of the produced text. RW7 (derived Ord of Label: the sort the exports rely on is the total order of the enum value) and HX6 (Display of Hex, which the DOT export embeds, writes exactly print()) and HX2 (print() and the other views of Hex do not depend on the representation: equal data print equally) are run as premises. LB4/LB5 (the text a label is exported with is its own text: Debug/Display of Label filter exactly the padding character from_str writes, print the alpha prefix it tests, and Display delegates to Debug) are run as premises: an edge entry carries the label as bound.",
        "note": "Trusted: rustc front end + engine; emap iteration is ascending and skips no Some slot; itertools sorted_by_key is a stable sort. The text-level clause (document parses back) is not decided.",
        "technique": "MIR guard + iterator-chain (taint/sanitiser) + provenance rules",
        "rules": [("XP1", L.xp1), ("XP2", L.xp2), ("XP3", L.xp3), ("XP4", L.xp4), ("RW7", LB.lb7), ("HX6", H.hx6), ("HX2", H.hx2), ("LB4/LB5", LB.lb45)],
        "explanation": "XP1 present filter (sibling rule, floor 4 listings), XP2 ascending vertex order and label-sorted edges, XP3 one unconditional entry per edge with its label and target, XP4 data entry iff has-data.",
        "trusted": [RUSTC, CONTAINERS],
        "assumptions": ["labels need no XML escaping (property precondition)"],
    },
    "C20": {
        "claim": "Decides IN1–IN4: the recursive descent of inspect() is control-dependent on the target not being in the visited set and vertices are marked before descending (termination on cycles); one unconditional line per edge of the visited vertex with its label and target; Debug/Display list a slot only if its tag is non-zero, with every edge and the data iff has-data, and no walk is left before its iterator is exhausted; v_print selects the data marker by persistence ∉ {Empty} of the printed vertex and lists one label per edge of that vertex. HX6/HX2 (the text a datum is listed with is print() of its bytes, whatever the representation) are run as premises. LB4/LB5 (Debug/Display of Label print exactly the label's own text) are run as premises: every listing shows a label as it was bound.",
        "note": "Trusted: rustc front end + engine; std HashSet. Exactly-once listing follows from marked-before-descent + unconditional per-edge line (hand argument).",
        "technique": "MIR guarded-recursion + guard/provenance rules",
        "rules": [("IN1", L.in1), ("IN2", L.in2), ("IN3", L.in3), ("IN4", L.in4), ("HX6", H.hx6), ("HX2", H.hx2), ("LB4/LB5", LB.lb45)],
        "explanation": "IN1 guarded recursion, IN2 per-edge line, IN3 Debug/Display present filter + edges + data, IN4 v_print marker and labels.",
        "trusted": [RUSTC, CONTAINERS],
        "assumptions": [],
    },
    "C17": {
        "claim": "Decides the structural clauses LB1–LB5: the single-character variant is chosen by a character count of exactly 1 (chars-derived), never by the UTF-8 byte length; every store into the 8-slot array cannot leave the array (index tested to be in 0..=7, get_mut, or iter_mut zipped slots-first), all 8 slots are usable, slot i receives the i-th of all characters of the text, and a 9th character reaches a constructed Err (no panic, no truncation); the alpha index is the parsed text after exactly one skipped character and the parse error is propagated; the padding character written by from_str is the one Debug filters, the alpha prefix tested is the one printed, the Greek arm prints exactly its character, Display delegates to Debug. Does not decide round-trip equality or injectivity over all strings. RW7: the comparison traits of Label are derived (equality of labels is equality of the enum value).",
        "note": "Trusted: rustc front end + engine; std str::chars/parse. The value-level round trip and injectivity are not decided; these clauses are necessary conditions of it.",
        "technique": "MIR taint (byte length vs char count) + guard + writer/reader constant agreement",
        "rules": [("LB1", LB.lb1), ("LB2", LB.lb2), ("LB3", LB.lb3), ("LB4/LB5", LB.lb45), ("RW7", LB.lb7)],
        "explanation": "LB1 unit of the single-char decision, LB2 bounded store / Err on over-long, LB3 index parse propagated, LB4/LB5 writer/reader constants agree.",
        "trusted": [RUSTC],
        "assumptions": [],
    },
    "C15": {
        "claim": "Decides the structural clauses HX1–HX5: each of the eight Index/IndexMut impls guards its inline-array access by exactly the comparison the byte slice's own bound check makes (bounds table), with the other edge panicking; eq/print/to_vec/byte_at/tail/to_i64/to_f64/to_utf8/is_empty/to_bool/Debug/Display never look at the representation, only at bytes()/len()/print(); bytes() is the array cut to exactly the length field and len() the stored length; numeric conversions use the big-endian pair through a whole-bytes [u8; 8] conversion with the error propagated; from_slice picks the inline form only if len ≤ 8 (a lower threshold is a pure representation choice), copies exactly slice.len() bytes and records slice.len(). Does not decide from_str(print(h)) == h (value round trip through the hex crate). HX6: Display and Debug of Hex write exactly print(). HX7: tail(skip) is built from bytes()[skip..] on every path (so it panics where the slice does), the empty value being returned only where skip == len. CL2 is run as a premise: Clone for Hex is derived (or the field-wise copy the derive would produce, without an overridden clone_from), so a copy of a Hex holds the bytes of the original.",
        "note": "Trusted: rustc front end + engine; std slice/array indexing semantics (the bounds table is derived from them); hex crate. The text round trip is not decided.",
        "technique": "MIR sibling-agreement (bounds table) + representation-encapsulation + provenance rules",
        "rules": [("HX1", H.hx1), ("HX2", H.hx2), ("HX3", H.hx3), ("HX4", H.hx4), ("HX5", H.hx5), ("HX6", H.hx6), ("HX7", H.hx7), ("CL2/CL3", NX.cl23)],
        "explanation": "HX1 bounds table over 8 Index impls, HX2 representation encapsulation (12 accessors + PartialEq), HX3 bytes()/len(), HX4 endianness pair and whole-bytes conversion, HX5 from_slice/from_vec.",
        "trusted": [RUSTC],
        "assumptions": [],
    },
    "C16": {
        "claim": "HX3 (the byte view concat() reads its operands through is the array cut at its length / the heap vector, and is total) and HX2 (equality of two values looks at their bytes only: the result of concat() equals the same bytes built any other way) are run as premises. Decides CC1–CC3 completely for concat(): no byte source appended to the result is a whole inline array (sources are bytes() views, the heap vector, or the array cut at its length field); the heap result is left bytes then right bytes exactly once each with no other conditional change of the vector; the inline result is built only under the tested fact l + len(h) ≤ 8, records l + len(h) and has the right bytes placed from index l of a copy of the left array; both operands are shared references to a type without interior mutability in a module without unsafe code. CC4: concat() contains no checked subtraction on lengths (it is total: no underflow panic for empty or short operands).",
        "note": "Trusted: rustc front end + engine; Vec::extend_from_slice / copy_from_slice semantics. Known finding F6 (inline-to-heap spill copies the whole array) is listed in known_findings.json because the existing test concatenates_from_hex_vec asserts the defective length.",
        "technique": "MIR provenance of appended byte sources + ordering by dominance",
        "rules": [("CC1", H.cc1), ("CC2", H.cc2), ("CC3", H.cc3), ("CC4", H.cc4), ("HX3", H.hx3), ("HX2", H.hx2)],
        "explanation": "CC1 provenance of every appended byte source, CC2 order and recorded length, CC3 operands unchanged.",
        "trusted": [RUSTC],
        "assumptions": [],
    },
    "C05": {
        "claim": "Decides NX1–NX5, which give the whole statement with exhaustion as a precondition: the allocator position is written only in next_id(); the returned id is the key of a vertex-store item selected by a predicate true only for tag ∈ {0} and key ≥ the pre-state position; every path sets position := id + 1 unless it is already larger; clone copies the position (CL1); merge's descent adds the fresh id on the same paths and a script allocates only as the default of vars.entry(name). SC5 (a $-identifier reaches the variable table, never the number parser: exactly one sigil is removed) and MG3-6 (merge binds only to fresh or mapped left vertices) are run as premises of the last sentence of the statement.",
        "note": "Trusted: rustc front end + engine; emap iteration yields exactly the Some slots with their keys. Exhaustion (no absent id at or above the position) is a precondition.",
        "technique": "MIR who-may-write + closure-predicate summary + must-pass-through rules",
        "rules": [("NX1", NX.nx1), ("NX2/NX3", NX.nx23), ("NX4", NX.cl1), ("NX5", NX.nx5), ("SC5", SC.sc5), ("MG3-6", MG.mg3456)],
        "explanation": "NX1 who writes next_v, NX2 predicate (absent ∧ ≥ pre-state position), NX3 position := id+1, NX4 clone copies the position, NX5 internal callers.",
        "trusted": [RUSTC, CONTAINERS],
        "assumptions": ["at least one absent id at or above the allocator position remains"],
    },
    "C10": {
        "claim": "Decides CL1–CL4: the aggregate built by clone() initialises each of the four fields from a clone/copy of the same field of the original; Clone of Vertex, Hex, Label, Persistence is derived; the type closure of Sodg declared in this crate contains no Rc, Arc, reference, cell, lock, atomic or raw pointer; clone() writes nothing. Together: every field that determines future behaviour is copied and nothing is shared. Does not decide equality of answers as values (follows with the containers' Clone, trusted).",
        "note": "Trusted: rustc front end + engine; Clone of emap::Map (fresh storage, every slot cloned), micromap::Map, microstack::Stack, Vec as audited.",
        "technique": "MIR provenance of the clone aggregate + type facts (derive list, field type closure)",
        "rules": [("CL1/CL4", NX.cl1), ("CL2/CL3", NX.cl23)],
        "explanation": "CL1 field-wise provenance (floor 4), CL2 derived Clone on 4 types, CL3 type closure, CL4 no write.",
        "trusted": [RUSTC, CONTAINERS],
        "assumptions": [],
    },
    "C08": {
        "claim": "Decides the per-field and writer/reader clauses SZ1–SZ5, each a necessary condition of the round trip: the serialized-field inventory read from the derived impls' MIR is every field of Sodg and Vertex and every variant/payload of Hex, Label, Persistence, written unconditionally from the field itself and restored from the same position, the only omission being Sodg::next_v (omitted on both sides, rebuilt by Default); the ten impls are derived; save() serialises self whole and writes exactly those bytes to the path; load() decodes the whole file and returns that value unmodified, and produces no Err on a path on which the decode succeeded (an image save() wrote is not rejected afterwards); both use the same bincode configuration. Does not decide equality of behaviour under every continuation. GC9 (no slot of the three tables is ever removed) is run as a premise: the containers serialise a table with a hole differently from one without.",
        "note": "Trusted: rustc front end + engine; serde derive output semantics; bincode 1.3.3; the containers' Serialize/Deserialize pairs (read). Behavioural equivalence under all continuations is not decided.",
        "technique": "MIR inventory of derive-expanded serde impls + writer/reader agreement + provenance in save/load",
        "rules": [("SZ1", SZ.sz1), ("SZ2", SZ.sz2), ("SZ3-5", SZ.sz345), ("GC9", G.gc9)],
        "explanation": "SZ1 field/variant inventory on both sides, SZ2 derived impls (floor 10), SZ3 save, SZ4 load, SZ5 codec pair.",
        "trusted": [RUSTC, CONTAINERS, "serde derive, bincode 1.3.3"],
        "assumptions": ["merges restricted to trees (no emptied slot, DESIGN §4)"],
    },
    "C09": {
        "claim": "Decides the sodg-side premises of the prefix argument (DESIGN C09): in load() the results of the file read and of the decode are only propagated (no unwrap/expect/ok()/unwrap_or*), the only Ok(..) returned is reached through their success edges and carries the value decoded from the complete byte vector, and every Deserialize in the closure of Sodg is derived with no field defaulted other than next_v (which consumes no input). With bincode's left-to-right slice reader (trusted) a proper prefix of a valid image then yields UnexpectedEof, i.e. Err. SZ6 (container premise): every table of the graph on which a slot removal is reachable (who-may-call on emap remove/clear/retain…; today the vertex table, through merge()'s repair path) is the last section of the image as written and as read — emap's reader panics on a completely decoded table with a hole, so such a table must not be followed by further sections.",
        "note": "Trusted: bincode 1.3.3 slice reader (every missing byte is UnexpectedEof, length prefixes checked before allocating) and the container visitors, as read; the hand argument 'prefix determinism ⇒ C09'.",
        "technique": "MIR error-discipline rule on load() + derived-impl inventory",
        "rules": [("LD1/LD2", SZ.ld12), ("SZ1", SZ.sz1), ("SZ2", SZ.sz2), ("SZ4", functools.partial(SZ.sz345, roundtrip=False)), ("SZ6", SZ.sz6)],
        "explanation": "LD1 results only propagated, LD2 single Ok through success edges, SZ1/SZ2 derived readers without defaulted fields, SZ4 whole-file decode, SZ6 a table that can have holes is the last section.",
        "trusted": [RUSTC, "bincode 1.3.3 slice reader", CONTAINERS],
        "assumptions": [],
    },
    "C07": {
        "claim": "Decides the sodg-side clause, in the conservative direction: no user-written unsafe block/fn/impl/extern block, raw pointer or transmute anywhere in the crate (HIR + MIR); every resolved callee in emap/micromap/microstack is outside the audited deny-list (uninitialised constructor, bitwise-reading iterators, *_unchecked, any unsafe fn), so each element access goes through an entry point that asserts its bound in a debug-assertion build; Stack::from_vec only on a literal of at most 16 elements; the locked checksums of the containers equal the audited ones; the element types for which the containers' bitwise reads are sound are unchanged; a graph built from the ids of another one (slice) gets that graph's vertex capacity. It can reject code that is in fact safe; it cannot accept code that leaves the checked API. Does not decide the containers' internals, release builds, or 'calls within the limits complete' (C02's no-panic clause). GC6c: the two group tables are created with the same size, so a group id valid for one is valid for the other. NX2: next_id() searches the whole vertex store from the allocator position, so it completes whenever an absent id at or above the position remains (one instance of 'calls within the limits complete'; the clause as a whole is not decided). CL1: a clone has every table of the original (a clone without the counters stops in the first read). RW1: bind() contains no always-compiled assertion other than the documented preconditions and the container's own full-map condition, and records an edge only through micromap's insert (which asserts room for a new key) or a checked_insert whose refusal is unwrapped, so the (N+1)-th label stops with a panic. MS7 (check before change): in add/bind/put/data every change of the graph is dominated by the vertex-table lookup of each id parameter, so a call stopped for an id at or above the capacity leaves the graph as it was and later calls within the limits still complete. LM (exact): a member list holds exactly 16 vertices, so the 17th member of a group stops in microstack's push assertion, and the group tables have at least the documented 16 slots. MS8: an iterator of microstack (a raw pointer without a lifetime) made from a stack that is a local value never leaves the function that owns the stack. GC5 is run as a premise of the group-size clause: bind() enlists a vertex only through microstack's asserting push(), paired with the tag write, so the 17th member stops with a panic instead of being dropped silently (try_push with its answer ignored). GC9 is run as a premise of 'calls within the limits complete': the constructor gives every id below the capacity a slot and nothing removes one.",
        "note": "Trusted: the audit of emap 0.0.13 / micromap 0.0.19 / microstack 0.0.7 by reading (DESIGN §3): bounds asserted under debug_assertions, push asserts in all builds. Claimed for debug-assertion builds only, as the property says.",
        "technique": "HIR/MIR unsafe scan + who-may-call deny-list over resolved callees + lockfile/type facts",
        "rules": [("MS1", MS.ms1), ("MS2", MS.ms2), ("MS3", MS.ms3), ("MS4", MS.ms4), ("MS5", MS.ms5), ("MS6", MS.ms6), ("MS7", MS.ms7), ("MS8", MS.ms8), ("RW1", functools.partial(RW.rw1, only_stop=True)), ("NX2/NX3", NX.nx23), ("CL1/CL4", NX.cl1), ("GC6c", functools.partial(G.gc6, parts="c")), ("LM", functools.partial(G.limits, exact=True)), ("MS2x", MS.ms_cross), ("GC5", G.gc5), ("GC9", G.gc9)],
        "explanation": "MS1 no unsafe, MS2 container deny-list over all resolved callees (floor 60 sites), MS3 from_vec literal, MS4 audited checksums, MS5 element types; thorough adds a clippy disallowed_methods cross-check.",
        "trusted": [RUSTC, CONTAINERS],
        "assumptions": ["debug-assertion builds"],
    },
    "C03": {
        "claim": "Decides all structural clauses RW1–RW7 + GC7b + GC8: bind(v1,v2,a) performs edges(v1).insert(a,v2) unconditionally with exactly its parameters; kid(v,a) returns the target of an edge of v only under label equality with a, None only after all edges were compared; kids(v) is the unfiltered iterator of v's edge map; put stores d.clone() unconditionally; data returns a copy of the stored datum in both the Stored and the Taken arm and None exactly in the Empty arm; edges/data/read status of graph vertices are written only by bind/put/data/add and only on vertices named by an id parameter; Label's Eq/Hash/Ord are derived; a recycled id is blanked and add() leaves a present vertex untouched (GC7, both parts); GC4 (counter pairing) is run as a premise — a counter that was not incremented makes the read of a present vertex stop in the decrement instead of returning the bytes. Value equality of bytes is delegated to the derived Clone of Hex and micromap's replace-in-place insert (trusted). GC5 (a vertex that joins a group is entered in its member list: otherwise it outlives the group, and a re-added id is not blank) and MG3-6 (what merge() binds and stores on an existing vertex comes from the right vertex it is mapped to) are run as premises: a merge is a call on other vertices too.",
        "note": "Trusted: rustc front end + engine; micromap::Map::insert replaces the value of an equal key in place; derived Clone of Hex copies the bytes.",
        "technique": "MIR provenance + guard + who-may-write (frame) rules",
        "rules": [("RW1", RW.rw1), ("RW2", RW.rw2), ("RW3", RW.rw3), ("RW4/RW5", RW.rw45), ("RW6", RW.rw6), ("RW7", LB.lb7),
                  ("GC7", functools.partial(G.gc7, part="ab")), ("GC8", G.gc8), ("GC4", G.gc4), ("GC5", G.gc5), ("MG3-6", MG.mg3456)],
        "explanation": "RW1 bind's insert, RW2 kid, RW3 kids, RW4 put, RW5 data's three arms, RW6 who-may-write, RW7 derived Label traits, GC7b blanking, GC8 frame.",
        "trusted": [RUSTC, CONTAINERS],
        "assumptions": ["capacity limits and documented preconditions"],
    },
    "C11": {
        "claim": "Decides MG1–MG6: nothing is written through the right-graph parameter (h is unchanged); the call closure of merge changes the left graph only through add/bind/put/next_id, so the GC state after a merge is one those calls produce and C01–C03 carry over; every bind(left,_,a) is control-dependent on kid(left,a) being None (an existing edge is never redirected); a new vertex is created exactly on the path where neither kid(left,a) nor the map has a target, as next_id → add(id) → bind(left,id,a); put(left,d) is guarded by the right vertex having data and d is that vertex's data; the descent recurses on (matched, to) after marking right in the map; merge() constructs an Err only on the edge where the completeness test fails (MG8: 'returns Ok' is not refused for any other reason; errors propagated from the descent aside). Does not decide that every labelled path of h exists afterwards with equal data nor injectivity of the mapping (graph-level value facts). Because the statement ends with 'afterwards g keeps obeying C01–C03', the rules for the three mutators merge() acts through are run as premises as well (GC4 counter accounting, GC5 joins, GC7 add, RW1 bind's edge insert, RW4/RW5 put/data), and MG5 demands that the datum is carried over under no condition other than the right vertex having one. NX2/NX3 run as premises: the descent needs a fresh id whenever one below the capacity is left.",
        "note": "Trusted: rustc front end + engine; std HashMap. merge() on non-tree input is outside the property (scoped exemption for the repair helper).",
        "technique": "MIR purity (read-only parameter) + who-may-call + guard/provenance rules on the descent",
        "rules": [("MG1", MG.mg1), ("MG2", MG.mg2), ("MG3-6", MG.mg3456), ("MG7/MG8", MG.mg78),
                  # "afterwards g keeps obeying C01-C03": the rules for the three mutators merge() acts through are premises
                  ("GC4", G.gc4), ("GC5", G.gc5), ("GC7", functools.partial(G.gc7, part="ab")), ("RW1", RW.rw1), ("RW4/RW5", RW.rw45), ("NX2/NX3", NX.nx23)],
        "explanation": "MG1 read-only right graph, MG2 additive through the API only, MG3 bind guard, MG4 creation shape, MG5 data copy, MG6 descent/marking, MG7/MG8 Ok/Err exactly on the completeness test.",
        "trusted": [RUSTC, CONTAINERS],
        "assumptions": ["both graphs are trees of present vertices"],
    },
    "C12": {
        "claim": "Decides MG7–MG8, the whole statement: every Ok(()) returned by merge() is control-dependent on the success of the descent and on equality between the size of the map the descent filled and the number of present vertices of the right graph; on the other edge an Err is returned whose text derives from the set difference keys(right) − mapped keys, sorted. Since the map gains one entry per visited right vertex (MG6), equality of the counts is completeness. GC7 (add() hands out a blank vertex) is run as a premise: a re-added id with stale edges would inflate the map the completeness test counts. XP1 (keys()/len() count exactly the present vertices) is run as a premise of the count the test compares with.",
        "note": "Trusted: rustc front end + engine; std HashMap/HashSet; MG6 (one map entry per visited right vertex) is checked under C11 and re-run here.",
        "technique": "MIR guard rule on the success return + provenance of the error text",
        "rules": [("MG7/MG8", MG.mg78), ("MG6", MG.mg3456),
                  # the completeness count relies on add() handing out blank vertices (a re-added id with stale edges inflates the map)
                  ("GC7", functools.partial(G.gc7, part="ab")),
                  # ... and on keys()/len() of the right graph counting exactly its present vertices
                  ("XP1", functools.partial(L.xp1, only=("Sodg::keys",)))],
        "explanation": "MG7 Ok guarded by ?-success ∧ |mapped| == |right|, MG8 Err names the difference, sorted.",
        "trusted": [RUSTC],
        "assumptions": [],
    },
    "C13": {
        "claim": "Decides SL1–SL6: every insertion into the work set inside the closure loop is control-dependent on the visited set not containing that vertex and the vertex is marked on enqueue or dequeue (each vertex processed at most once: termination on cycles; roles found structurally); a vertex is enqueued only under p(from,to,label) true with exactly the scanned edge's components, every edge of a visited vertex being scanned and the scan loop never left by break or an early success return; the rebuild calls add/bind only, bind(v1,v2,k) with exactly (outer key, inner target, inner label) of the edge iterated, control-dependent on nothing but membership of both endpoints in the visited set; nothing is written through &self; the slice has the source's capacity; slice() passes the constantly-true predicate. Does not decide set equality with graph reachability as such. RW1, GC5 and GC7 (contracts of bind() and add(), with which the slice is rebuilt) are run as premises. SL7: slice()/slice_some() build no Err of their own except to refuse a start id at or beyond the capacity. SL8: every Ok(..) of slice() carries the graph produced by its slice_some() call (no second, fast-path definition of the reachable sub-graph).",
        "note": "Trusted: rustc front end + engine; std HashSet. Soundness of each copy, completeness of the scan and termination are decided; equality of the kept set with the reachable set follows by the standard work-list argument (hand).",
        "technique": "MIR visited-set discipline (guard + co-occurrence) + provenance of rebuild arguments + purity",
        "rules": [("SL1/SL2", SL.sl12), ("SL3-6", SL.sl3456), ("SL7", SL.sl7), ("SL8", SL.sl8),
                  # the slice is rebuilt with add() and bind(): their own contracts are premises (edge recorded, vertex blank, joins
                  # that keep the member lists within the limits)
                  ("RW1", RW.rw1), ("GC5", G.gc5), ("GC7", functools.partial(G.gc7, part="ab"))],
        "explanation": "SL1 visited-set discipline, SL2 predicate arguments, SL3 rebuild shape, SL4 read-only source, SL5 capacity, SL6 constant predicate.",
        "trusted": [RUSTC, CONTAINERS],
        "assumptions": ["everything reachable from v is present and numbers at most 14 vertices"],
    },
    "C19": {
        "claim": "Decides ND1–ND3, which remove every source of run-to-run or size dependence: values produced by iterating a std hash container, and loop bodies driven by them, reach only order-insensitive uses (set/map insert, contains, len, reads, the user predicate) unless sorted first — never a graph mutator, next_id or an unsorted returned sequence/string; time/random/environment sources feed logging only and no pointer is turned into a number; the const parameter N never occurs as a value and capacity() flows only into Sodg::empty, a diverging bound check or logging. Does not decide equality of whole traces across configurations as such. SZ3-5 (save/load use bincode's default configuration on the whole image: no size limit that a larger capacity would exceed) and NX2 (next_id() tries every id up to the last slot, so whether it finds one depends on the capacity only through exhaustion) and LM (the group tables and member lists have the fixed documented sizes, not sizes taken from N) are run as premises. SL1/SL2 are run as a premise: slice_some() drains its work set in hash order (accepted by ND1 because what it computes, the set of vertices reachable along accepted edges, does not depend on that order); that holds only while a vertex is marked visited exactly when an accepted edge reaches it and the predicate is asked for every edge of every visited vertex — a traversal that remembers refusals per vertex, or marks before asking, computes a set that depends on the drain order.",
        "note": "Trusted: rustc front end + engine; micromap iteration is insertion-ordered and emap iteration ascending (deterministic), as read.",
        "technique": "MIR taint analysis (hash-iteration order, time, size parameters) with sort as sanitiser",
        "rules": [("ND1", SL.nd1), ("ND2", SL.nd2), ("ND3", SL.nd3), ("SZ3-5", functools.partial(SZ.sz345, roundtrip=False)), ("NX2/NX3", NX.nx23), ("LM", G.limits), ("SL1/SL2", SL.sl12)],
        "explanation": "ND1 hash-order taint (floor 3 sources), ND2 other nondeterminism sources, ND3 N / capacity only as bounds.",
        "trusted": [RUSTC, CONTAINERS],
        "assumptions": ["sequences that fit within the limits of both configurations"],
    },
    "C14": {
        "claim": "Decides SC1–SC4: in the per-command function the three graph calls are control-dependent on the command name (capture 1 of the command text) being equal to ADD / BIND / PUT and take add(id(arg0)), bind(id(arg0), id(arg1), Label::from_str(arg2)), put(id(arg0), data(arg1)) on the given graph, with no other graph mutation in the closure of deploy_to; one next_id per variable name (NX5); the returned count is incremented exactly once on the success edge of each deployed command and commands run in split(';') order through order-preserving adaptors only; no panicking operation on script-derived data outside an audited table (Regex::new on literals, captures that always participate, hex-pair parsing dominated by the hex-pairs regex). Does not decide the grammar itself (what the regular expressions accept: comment stripping, whitespace, hex formatting). SC5: Script::from_str stores exactly the text it is given, and an identifier loses exactly its one sigil before it reaches the number parser or the variable table. LB2 (Label::from_str, which BIND parses its label with, returns Err and does not panic on an over-long text) is run as a premise. SC6: where an argument is decoded under a successful regex test (PUT's data), the decoder is given the very text that passed the test (the cleaned copy), not the raw argument it was derived from.",
        "note": "Trusted: rustc front end + engine; regex crate semantics for the audited exceptions. The grammar (language accepted by the four regular expressions) is not code shape and is not decided; e.g. a trailing comment without newline is not stripped (DESIGN §4).",
        "technique": "MIR dispatch-table agreement (guard + argument provenance) + error-discipline rule",
        "rules": [("SC1", SC.sc1), ("SC2", NX.nx5), ("SC3", SC.sc3), ("SC4", SC.sc4), ("SC5", SC.sc5), ("SC6", SC.sc6), ("LB2", LB.lb2)],
        "explanation": "SC1 dispatch table (floor 3), SC2 variables, SC3 count and order, SC4 panicking operations vs audited table (floor 8).",
        "trusted": [RUSTC, "regex crate"],
        "assumptions": ["programs within the capacity limits and preconditions"],
    },
}

"""Whole-graph listings and per-vertex printers: XP1–XP4 (C18), IN1–IN4 (C20)."""
from core import *
from model import *

CONSUMERS = {"collect", "for_each", "count", "join", "fold", "last", "sum", "max", "min", "collect_vec", "try_for_each",
             "extend", "from_iter"}
# adaptors / consumers that run a closure once per item
PER_ITEM = {"map", "flat_map", "filter_map", "for_each", "try_for_each", "fold", "try_fold", "inspect"}
ORDER_KEEPING = {"filter", "enumerate", "map", "copied", "cloned", "inspect", "peekable", "filter_map"}
SORTS = {"sorted", "sorted_by_key", "sorted_unstable", "sorted_unstable_by_key"}
ITEM_KEEPING = {"filter", "sorted", "sorted_by_key", "sorted_unstable", "sorted_unstable_by_key", "rev", "skip",
                "take", "step_by", "inspect", "peekable", "skip_while", "take_while"}


def is_vertices_of_self(src):
    s = strip_load(src)
    if s[0] == "field" and s[2] == "Sodg::vertices":
        return True
    return is_keys_call(s)


def is_keys_call(s):
    """the public keys() listing of the graph: present vertices only, ascending (checked itself by XP1)"""
    s = strip_load(s)
    return s[0] == "call" and s[1].endswith("Sodg<N>>::keys") and len(s[2]) == 1 and strip_load(s[2][0]) == ("param", 1)


def is_edges_field(src):
    s = strip_load(src)
    return s[0] == "field" and s[2] == "Vertex::edges"


class Iteration:
    """one traversal of a collection: a `for` loop (form='loop') or an adaptor chain handed to a
    consumer (form='chain')"""

    def __init__(self, form, body, site, it, raw_evs, chain=()):
        self.form = form
        self.body = body
        self.site = site
        self.it = it
        self.source = iter_source(it)
        self.adaptors = iter_adaptors(it)
        self.evs = raw_evs
        self.chain = chain

    def item_pred(self):
        """predicate: expression mentions this iteration's item"""
        keys = set()
        it = strip_load(self.it)
        while True:
            keys.add(strip_sites(it))
            if it[0] == "adapt":
                it = strip_load(it[2])
                continue
            break

        def p(x):
            return x[0] == "item" and strip_sites(x[1]) in keys
        return p

    def body_events(self):
        """raw call events executed per item (loop body / consumer closures), that mention the item"""
        p = self.item_pred()
        out = []
        for e in self.evs:
            if e.kind != "call" or e.d.get("in_pred"):
                continue
            if any(mentions(a, p) for a in e.args):
                out.append(e)
        return out

    def where(self):
        return self.body.where(self.site)


def iterations(F, root, source_pred, stop=()):
    """all iterations in root (helpers and closures followed) whose source satisfies source_pred"""
    col = Collector(F, stop_names=stop)
    raw = col.collect(root)
    out = []
    seen = set()
    chains_seen = set()
    for e in raw:
        if e.kind != "call":
            continue
        decl = e.callee.get("decl", "")
        if decl == "std::iter::Iterator::next" and e.args:
            it = strip_load(e.args[0])
            src = iter_source(it)
            if src is not None and source_pred(src):
                key = ("loop", id(e.body), e.site)
                if key not in seen:
                    seen.add(key)
                    itn = Iteration("loop", e.body, e.site, it, raw, e.chain)
                    try:
                        itn.breaks = e.body.early_exits(e.site[0])
                    except Exception:
                        itn.breaks = []
                    out.append(itn)
        elif (e.name in CONSUMERS or e.name in PER_ITEM) and e.args:
            it = strip_load(e.args[0])
            if e.name in ("extend", "from_iter") and len(e.args) > 1:
                it = strip_load(e.args[-1])
            src = iter_source(it)
            if src is not None and source_pred(src) and it[0] in ("iter", "adapt"):
                # once per traversal: a consumer of a chain that already has a per-item closure registered adds nothing
                prefixes = set()
                x = it
                while True:
                    prefixes.add(strip_sites(x))
                    if x[0] == "adapt":
                        x = strip_load(x[2])
                        continue
                    break
                if any(k in prefixes for k in chains_seen):
                    continue
                key = ("chain", id(e.body), e.site)
                if key not in seen:
                    seen.add(key)
                    chains_seen.add(strip_sites(it))
                    itn = Iteration("chain", e.body, e.site, it, raw, e.chain)
                    itn.consumer = e.name
                    itn.result = ("call", e.path, tuple(e.args), e.site[0])
                    out.append(itn)
    # a chain merely collected into a vector that is walked later: the later walk is the traversal
    later = set()
    for i2 in out:
        for an, ex in i2.adaptors:
            if an == "collect":
                later.add(strip_sites(strip_load(ex[0])))
    out = [i2 for i2 in out if not (i2.form == "chain" and getattr(i2, "consumer", "") in ("collect", "collect_vec") and
                                    strip_sites(i2.result) in later)]
    return out, raw


def closure_of(F, e):
    e = strip_load(e)
    if e[0] == "closure":
        return F.bodies.get(e[1])
    return None


def filter_excludes_absent(F, it):
    """the chain has a filter (before any item-changing adaptor) whose predicate is true only for tag != 0"""
    for name, extra in it.adaptors:
        if name == "filter":
            cb = closure_of(F, extra[0]) if extra else None
            if cb is None:
                continue
            summ = pred_summary(cb)
            if summ and all(excludes(conj, lambda s: is_tag_of(s), 0) is not None for conj in summ):
                return True
        elif name == "filter_map":
            # filter_map(|(v, vtx)| (vtx.branch != 0).then_some(..)): Some only for tag != 0
            cb = closure_of(F, extra[0]) if extra else None
            summ = some_summary(cb) if cb is not None else None
            if summ and all(excludes(conj, lambda s: is_tag_of(s), 0) is not None for conj in summ):
                return True
            return False
        elif name not in ITEM_KEEPING:
            return False
    return False


def narrowing_tag_facts(conj):
    """facts of a predicate summary about a slot's tag other than `tag != 0`: a filter that also rejects tag 1 (`branch > 1`,
    a range that stops short of the last group) is true only for present vertices, but not for all of them"""
    out = []
    for f in conj:
        if f[0] in ("in", "notin") and is_tag_of(f[1]):
            if not (f[0] == "notin" and f[2] == frozenset([0])):
                out.append(f)
        elif f[0] == "cmp" and (is_tag_of(f[2]) or is_tag_of(f[3])):
            out.append(f)
        elif f[0] == "bool" and mentions(f[1], lambda x: x[0] == "field" and x[2] == "Vertex::branch"):
            out.append(f)
    return out


def filter_too_narrow(F, it):
    for name, extra in it.adaptors:
        if name in ("filter", "filter_map"):
            cb = closure_of(F, extra[0]) if extra else None
            if cb is None:
                continue
            summ = pred_summary(cb) if name == "filter" else some_summary(cb)
            for conj in summ or []:
                nf = narrowing_tag_facts(conj)
                if nf:
                    return [show(f, cb) for f in nf]
    return []


def present_summaries(F, R):
    """len() and is_empty() describe the same set as keys(): they are computed from keys()/len(), or by a walk over the vertex
    store that selects exactly the slots whose tag is not 0"""
    keys = F.fn("Sodg", "keys")
    for name in ("len", "is_empty"):
        b = F.fn("Sodg", name)
        label = "Sodg::" + name
        if b is None:
            continue            # not part of the API any more: nothing to agree with
        its, raw = iterations(F, b, is_vertices_of_self)
        R.analysed(b, len(raw))
        preds = []
        for e in raw:
            if e.kind == "call" and e.name in ("any", "all", "find", "position", "find_map") and len(e.args) > 1:
                itx = strip_load(e.args[0])
                src = iter_source(itx) if itx[0] in ("iter", "adapt") else None
                if src is not None and is_vertices_of_self(src):
                    preds.append((e, itx))
        for e, itx in preds:
            cb = closure_of(F, e.args[1])
            summ = pred_summary(cb) if cb is not None else None
            keeps = all(a in ITEM_KEEPING for a, _ in iter_adaptors(itx))
            why = None
            if e.name == "all":
                ok = keeps and bool(summ) and all(any(f[0] == "in" and f[2] == frozenset([0]) and is_tag_of(f[1]) for f in conj) and
                                                  len([f for f in conj if mentions(f, lambda x: x[0] == "field" and x[2] == "Vertex::branch")]) == 1
                                                  for conj in summ)
            else:
                ok = keeps and bool(summ) and all(excludes(conj, lambda s2: is_tag_of(s2), 0) is not None and not narrowing_tag_facts(conj)
                                                  for conj in summ)
                if summ and not ok:
                    why = [show(f, cb) for conj in summ for f in narrowing_tag_facts(conj)]
            if ok:
                R.ok("XP1", e.where(), "%s() searches the vertex store for a slot whose tag is not 0 (%s)" % (name, e.name))
            else:
                R.bad("XP1", "XP1/%s/present-test-not-tag-nonzero" % label, e.where(),
                      "%s() searches the vertex store with a test that is not exactly `tag != 0`: it disagrees with keys() about which "
                      "vertices are present (e.g. a vertex that was added but never bound)" % name,
                      {"search": show(itx, e.body)[:200], "narrowing": why})
        if preds and not its:
            continue
        if not its:
            derived = any(t["callee"].get("local") and t["callee"].get("name") in ("keys", "len") for _, t in b.calls())
            direct = any(e.kind == "call" and e.krate == "emap" and e.args and is_vertices_of_self(e.args[0]) for e in raw)
            if derived and not direct:
                R.ok("XP1", b.where(), "%s() is computed from keys()/len(): the present vertices" % name)
            else:
                R.bad("XP1", "XP1/%s/not-derived-from-the-present-set" % label, b.where(),
                      "%s() is computed neither from keys()/len() nor by a walk that selects the slots with tag != 0: it counts "
                      "slots, not present vertices" % name)
            continue
        for it in its:
            ok = filter_excludes_absent(F, it) and not filter_too_narrow(F, it)
            why = None
            cons = getattr(it, "consumer", "")
            if not ok and cons in ("any", "all", "find", "position", "find_map") and len(it.result[2]) > 1 and \
                    all(a in ITEM_KEEPING for a, _ in it.adaptors):
                cb = closure_of(F, it.result[2][1])
                summ = pred_summary(cb) if cb is not None else None
                if cons == "all":
                    # all(absent): the predicate must be true exactly for tag == 0
                    ok = bool(summ) and all(any(f[0] == "in" and f[2] == frozenset([0]) and is_tag_of(f[1]) for f in conj) for conj in summ)
                else:
                    ok = bool(summ) and all(excludes(conj, lambda s2: is_tag_of(s2), 0) is not None and not narrowing_tag_facts(conj) for conj in summ)
                    if summ and not ok:
                        why = [show(f, cb) for conj in summ for f in narrowing_tag_facts(conj)]
            if ok:
                R.ok("XP1", it.where(), "%s() walks the vertex store selecting exactly the slots whose tag is not 0" % name)
            else:
                R.bad("XP1", "XP1/%s/present-test-not-tag-nonzero" % label, it.where(),
                      "%s() walks the vertex store with a test that is not exactly `tag != 0`: it disagrees with keys() about which "
                      "vertices are present (e.g. a vertex that was added but never bound)" % name,
                      {"iterator": show(it.it, it.body)[:240], "narrowing": why})


def vertex_item_tag_pred(it):
    p = it.item_pred()

    def q(s):
        core = strip_load(s)
        return core[0] == "field" and core[2] == "Vertex::branch" and mentions(core[1], p)
    return q


# ---------------------------------------------------------------- XP1: present filter (sibling rule)
def listing_functions(F):
    out = []
    for key, name, trait in (("Sodg", "keys", None), ("Sodg", "fmt", "std::fmt::Debug"), ("Sodg", "to_xml", None),
                             ("Sodg", "to_dot", None)):
        out.append(((key, name, trait), F.fn(key, name, trait)))
    return out


def xp1(F, R, only=None):
    n = 0
    for (key, name, trait), b in listing_functions(F):
        label = "%s::%s%s" % (key, name, "(Debug)" if trait else "")
        if only is not None and label not in only:
            continue
        if b is None:
            R.missing("XP1", label)
            continue
        its, raw = iterations(F, b, is_vertices_of_self)
        R.analysed(b, len(raw))
        if not its:
            R.missing("XP1", "iteration over the vertex store in %s" % label, b.where())
            continue
        for it in its:
            n += 1
            if getattr(it, "breaks", None) and name != "keys":
                R.bad("XP1", "XP1/%s/listing-stops-early" % label, it.where(),
                      "the walk over the vertex store can be left before the last slot (break / early return): the vertices after that "
                      "point are not listed")
                continue
            ok = filter_excludes_absent(F, it)
            how = "filter adaptor"
            if not ok and getattr(it, "consumer", "") == "filter_map" and len(it.result[2]) > 1 and \
                    all(a in ITEM_KEEPING for a, _ in it.adaptors):
                cb = closure_of(F, it.result[2][1])
                summ = some_summary(cb) if cb is not None else None
                if summ and all(excludes(conj, lambda s: is_tag_of(s), 0) is not None for conj in summ):
                    ok = True
                    how = "filter_map keeps a slot only if its tag is not 0"
            if not ok and is_keys_call(it.source) and name != "keys":
                ok = True
                how = "walks keys(), the present vertices"
            if not ok and it.form == "loop":
                evs = it.body_events()
                q = vertex_item_tag_pred(it)
                bad = [e for e in evs if excludes(e.facts, q, 0) is None and not is_test_call(e)]
                ok = bool(evs) and not bad
                how = "in-loop test"
            if ok and it.form == "loop" and name in ("to_xml", "to_dot", "fmt"):
                # ... and every present vertex gets its entry, with or without data: what is appended to the document made before the
                # loop (the root element, the vector of lines) is appended whatever the vertex's read status
                ALLV = frozenset(["Empty", "Stored", "Taken"])
                cover, n_out = frozenset(), 0
                def in_this_loop(e):
                    for f in e.facts:
                        if is_iter_protocol_fact(f) and f[2] == frozenset(["Some"]):
                            try:
                                if strip_sites(strip_load(strip_load(f[1])[1])[1]) == strip_sites(it.it):
                                    return True
                            except Exception:
                                pass
                    return False
                for e in it.evs:
                    if not (e.kind == "call" and e.body is it.body and e.name in ("add_child", "push", "push_str", "write_str", "write_fmt") and e.args
                            and in_this_loop(e)):
                        continue
                    recv = strip_load(e.args[0])
                    made_before = recv[0] == "call" and len(recv) > 3 and isinstance(recv[3], int) and recv[3] != it.site[0] and \
                        it.body.dominates((recv[3], 0), (it.site[0], 0))
                    if not made_before or any(is_iter_protocol_fact(f) and f[2] == frozenset(["Some"]) and
                                              mentions(f, lambda x: x[0] == "field" and x[2] == "Vertex::edges") for f in e.facts):
                        continue        # appended to the per-vertex element, or inside the walk over the vertex's edges
                    n_out += 1
                    sets = [f[2] for f in e.facts if f[0] == "in" and strip_load(f[1])[0] == "discr" and
                            mentions(f[1], lambda x: x[0] == "field" and x[2] == "Vertex::persistence") and f[2] <= ALLV]
                    cov = ALLV
                    for st in sets:
                        cov = cov & st
                    cover = cover | cov
                if n_out and cover != ALLV:
                    R.bad("XP1", "XP1/%s/entry-depends-on-data" % label, it.where(),
                          "a present vertex gets its entry only if its read status is in %s: vertices without data (or with data already read) are "
                          "missing from the listing" % sorted(cover))
                    continue
            if ok and how == "filter adaptor" and filter_too_narrow(F, it):
                R.bad("XP1", "XP1/%s/present-filter-too-narrow" % label, it.where(),
                      "%s selects slots by a test narrower than `tag != 0` (%s): present vertices outside that range — e.g. added but "
                      "never bound — are not listed" % (label, filter_too_narrow(F, it)))
                continue
            if ok:
                R.ok("XP1", it.where(), "%s lists a slot only if its tag is not 0 (%s)" % (label, how))
            else:
                R.bad("XP1", "XP1/%s/no-present-filter" % label, it.where(),
                      "%s walks every slot of the vertex store and emits an entry without testing that the slot holds a "
                      "present vertex (tag != 0): absent and collected ids are listed" % label,
                      {"iterator": show(it.it, it.body)})
    if only is None:
        R.floor("XP1", "whole-graph listings", n, 4)
    if only is None or "Sodg::len" in only:
        present_summaries(F, R)


def is_test_call(e):
    d = e.callee.get("decl", "")
    return d in ("std::cmp::PartialEq::eq", "std::cmp::PartialEq::ne", "std::cmp::PartialOrd::lt",
                 "std::cmp::PartialOrd::le", "std::cmp::PartialOrd::gt", "std::cmp::PartialOrd::ge")


# ---------------------------------------------------------------- XP2: order
def sort_key_is(F, extra, field_idx):
    """closure handed to sorted_by_key returns (a copy of) tuple field `field_idx` of its item"""
    cb = closure_of(F, extra[0]) if extra else None
    if cb is None:
        return False
    for r in cb.returns:
        e = strip_load(cb.expr_local(0, (r, cb.term_idx(r))))
        for _ in range(4):
            if e[0] == "call" and e[1].split("::")[-1] in ("clone", "to_owned", "copied") and e[2]:
                e = strip_load(e[2][0])
        if not (e[0] == "field" and e[2] == "(tuple)::%d" % field_idx and mentions(e[1], lambda x: x == ("param", 2))):
            return False
    return bool(cb.returns)


def cmp_closure_on(F, cl, field_idx):
    """closure |l, r| l.<idx>.cmp(r.<idx>) (or partial_cmp / the reverse is NOT accepted)"""
    cb = closure_of(F, cl)
    if cb is None or cb.arg_count != 3:
        return False
    for site, t in cb.calls():
        if t["callee"].get("name") in ("cmp", "partial_cmp"):
            args = [unload(deref_addr(cb, a)) for a in cb.call_args(t, site)]
            if len(args) == 2 and all(a[0] == "field" and a[2] == "(tuple)::%d" % field_idx for a in args) and \
                    mentions(args[0], lambda x: x == ("param", 2)) and mentions(args[1], lambda x: x == ("param", 3)):
                return True
    return False


def xp2(F, R):
    for name in ("to_xml", "to_dot"):
        b = F.fn("Sodg", name)
        if b is None:
            R.missing("XP2", "Sodg::" + name)
            continue
        its, raw = iterations(F, b, is_vertices_of_self)
        R.analysed(b, len(raw))
        for it in its:
            bad = None
            mapped = False      # the items are no longer the store's (id, vertex) pairs: component 0 need not be the id any more
            for an, extra in it.adaptors:
                if an in ("filter", "enumerate", "inspect", "peekable"):
                    continue
                if an == "map":
                    # one result per item, in the same order — provided the pair stays (the id or its text, the vertex)
                    res = closure_result(it.body, extra[0], ("the-item",)) if extra else None
                    core = strip_load(res) if res is not None else None
                    keeps = False
                    if core is not None and core[0] == "tuple" and len(core[1]) == 2:
                        k0, k1 = strip_load(core[1][0]), strip_load(core[1][1])
                        for _ in range(3):
                            if k0[0] == "call" and k0[1].split("::")[-1] in ("to_string", "clone", "to_owned") and len(k0[2]) == 1:
                                k0 = strip_load(deref_addr(it.body, k0[2][0])) if False else strip_load(k0[2][0])
                        is0 = strip_sites(k0) == ("field", ("the-item",), "(tuple)::0")
                        is1 = strip_sites(k1) == ("field", ("the-item",), "(tuple)::1")
                        keeps = is0 and is1
                    if not keeps:
                        bad = "adaptor `map` that does not hand on (id, vertex) between the store iteration and the emission"
                    mapped = True
                    continue
                if an in ("sorted",):
                    if mapped:
                        bad = "sorted after the items were mapped to something else"
                    continue
                if an in ("sorted_by_key", "sorted_unstable_by_key"):
                    if mapped or not sort_key_is(F, extra, 0):
                        bad = "sorted by something other than the vertex id"
                    continue
                if an in ("sorted_by", "sorted_unstable_by"):
                    if mapped or not extra or not cmp_closure_on(F, extra[0], 0):
                        bad = "sorted by something other than the vertex id"
                    continue
                bad = "adaptor `%s` between the ascending store iteration and the emission" % an
            if strip_load(it.it)[0] == "iter" and strip_load(it.it)[2] not in ("iter", "iter_mut", "into_iter"):
                bad = "vertex store walked with `%s`" % strip_load(it.it)[2]
            src_how = source_method(it.it)
            if src_how not in ("iter", "iter_mut", "into_iter"):
                bad = "vertex store walked with `%s`" % src_how
            if bad and bad.startswith("adaptor `collect`"):
                bad = None
            if bad:
                R.bad("XP2", "XP2/Sodg::%s/vertex-order" % name, it.where(),
                      "vertices are not emitted in ascending id order: %s" % bad, {"iterator": show(it.it, it.body)})
            else:
                R.ok("XP2", it.where(), "Sodg::%s emits vertices in ascending id order (emap iteration / sort by id)" % name)
        eits, _ = iterations(F, b, is_edges_field)
        if not eits:
            R.missing("XP2", "iteration over a vertex's edges in Sodg::%s" % name, b.where())
        for it in eits:
            sorted_ok = False
            bad = None
            # a vector collected from the edges and sorted in place by label before it is walked
            for an, extra in it.adaptors:
                if an == "collect":
                    vec = strip_sites(strip_load(extra[0]))
                    for e2 in it.evs:
                        if e2.kind == "call" and e2.name in ("sort", "sort_unstable") and e2.args and mentions(e2.args[0], lambda x: strip_sites(x) == vec):
                            sorted_ok = True      # (label, target) pairs: ordered by label first
                        if e2.kind == "call" and e2.name in ("sort_by", "sort_unstable_by", "sort_by_key", "sort_unstable_by_key", "sort_by_cached_key") and \
                                len(e2.args) == 2 and mentions(e2.args[0], lambda x: strip_sites(x) == vec):
                            if e2.name.endswith("by_key") or e2.name.endswith("cached_key"):
                                sorted_ok = sort_key_is(F, e2.args[1:], 0)
                            else:
                                sorted_ok = cmp_closure_on(F, e2.args[1], 0)
                            if not sorted_ok:
                                bad = "edges sorted by something other than the label"
            for an, extra in it.adaptors:
                if an == "sorted":
                    sorted_ok = True
                elif an in ("sorted_by_key", "sorted_unstable_by_key"):
                    if sort_key_is(F, extra, 0):
                        sorted_ok = True
                    else:
                        bad = "edges sorted by something other than the label"
                elif an in ("rev",):
                    bad = "reversed"
                elif an in ("filter", "skip", "take", "step_by", "skip_while", "take_while", "filter_map"):
                    pass  # XP3's business
            if not sorted_ok or bad:
                R.bad("XP2", "XP2/Sodg::%s/edge-order" % name, it.where(),
                      "edges are emitted in insertion order, not sorted by label: two graphs with the same edges built in a "
                      "different order print differently" + ((" (%s)" % bad) if bad else ""),
                      {"iterator": show(it.it, it.body)})
            else:
                R.ok("XP2", it.where(), "Sodg::%s sorts a vertex's edges by label before emitting them" % name)


def source_method(it):
    it = strip_load(it)
    while it[0] == "adapt":
        it = strip_load(it[2])
    return it[2] if it[0] == "iter" else "?"


def keyed_collect_problem(F, it):
    """the edges walked were first collected into a map or a set (BTreeMap, HashMap, BTreeSet, HashSet): entries with equal keys
    collapse into one.  Harmless iff the key is (or contains) the edge's label, which is unique within a vertex's edge map; a map keyed
    by the *target* loses every second label bound to the same vertex.  Returns a description of the problem or None."""
    from sl import expr_type
    KEYED = ("BTreeMap<", "HashMap<", "BTreeSet<", "HashSet<", "IndexMap<", "IndexSet<")
    LABEL = ("field", ("param", 2), "(tuple)::0")

    def is_label(x):
        x = strip_load(x)
        for _ in range(4):
            if x[0] in ("deref", "copied", "cloned", "cast") and len(x) > 1 and isinstance(x[-1], tuple):
                x = strip_load(x[-1])
        return strip_sites(x) == LABEL

    x = strip_load(it.it)
    depth = 0
    while depth < 12:
        depth += 1
        if x[0] == "adapt":
            x = strip_load(x[2])
            continue
        if x[0] == "iter":
            src = strip_load(x[1])
            if src[0] == "call" and src[1].split("::")[-1] in ("collect", "from_iter", "collect_vec") and src[2]:
                ty = expr_type(it.body, src)
                inner = strip_load(src[2][-1])
                if any(k in ty for k in KEYED):
                    maps = []
                    y = inner
                    while y[0] == "adapt":
                        if y[1] in ("map", "filter_map", "flat_map", "zip", "enumerate"):
                            maps.append(y)
                        y = strip_load(y[2])
                    if not maps:
                        x = inner
                        continue            # the entries themselves: keyed by the label
                    if len(maps) > 1 or maps[0][1] != "map":
                        return "collected into %s through %s: cannot establish that the key is the edge's label" % (ty[:40], [m[1] for m in maps])
                    cl = strip_load(maps[0][3][0]) if maps[0][3] else None
                    cb = F.bodies.get(cl[1]) if cl is not None and cl[0] == "closure" else None
                    if cb is None or len(cb.returns) != 1:
                        return "collected into %s by a key that cannot be read" % ty[:40]
                    r = cb.returns[0]
                    ret = strip_load(cb.expr_local(0, (r, cb.term_idx(r))))
                    elems = [e2 for e2 in ret[1]] if ret[0] == "tuple" else [ret]
                    is_set = "Set<" in ty
                    ok = any(is_label(e2) for e2 in elems) if is_set else (len(elems) >= 1 and is_label(elems[0]))
                    if not ok:
                        return "collected into a %s whose key is not the edge's label (%s)" % (ty.split("<")[0].split("::")[-1], show(elems[0], cb)[:80])
                x = inner
                continue
        break
    return None


# ---------------------------------------------------------------- XP3: one entry per edge
RESHAPING = ("zip", "zip_eq", "zip_longest", "chain", "interleave", "merge", "flat_map", "flatten", "cycle", "scan", "cartesian_product", "tuple_windows", "chunks")
def edge_emission(F, R, rule, fnlabel, b, need_both=True):
    vits, raw = iterations(F, b, is_vertices_of_self)
    eits, _ = iterations(F, b, is_edges_field)
    if not eits:
        R.missing(rule, "iteration over a vertex's edges in %s" % fnlabel, b.where())
        return
    for it in vits:
        if getattr(it, "breaks", None):
            R.bad(rule, "%s/%s/vertex-walk-stops-early" % (rule, fnlabel), it.where(),
                  "the walk over the vertex store can be left before the last slot (break / early return): later vertices are not listed")
    for it in eits:
        if getattr(it, "breaks", None):
            R.bad(rule, "%s/%s/edge-walk-stops-early" % (rule, fnlabel), it.where(),
                  "the walk over a vertex's edges can be left before the last edge (break / early return): the remaining edges are not listed")
            continue
        dropped = [an for an, _ in it.adaptors if an in ("filter", "skip", "take", "step_by", "skip_while", "take_while",
                                                          "filter_map", "dedup", "unique")]
        if dropped:
            R.bad(rule, "%s/%s/edges-filtered" % (rule, fnlabel), it.where(),
                  "not every edge of a vertex is listed: the edge iteration passes through %s" % dropped,
                  {"iterator": show(it.it, it.body)})
            continue
        # the items walked are the entries of the edge map themselves: an adaptor that pairs or merges the walk with another
        # iterator (`keys().sorted().zip(values())`) makes tuples that look like entries but are not — the label of one edge
        # with the target of another
        kc = keyed_collect_problem(F, it)
        if kc:
            R.bad(rule, "%s/%s/edges-collapsed-by-key" % (rule, fnlabel), it.where(),
                  "the edges listed were first %s: two labels bound to the same target collapse into one entry" % kc,
                  {"iterator": show(it.it, it.body)[:300]})
            continue
        reshaped = [an for an, _ in it.adaptors if an in RESHAPING]
        sm = source_method(it.it)
        if reshaped or (need_both and sm in ("keys", "values", "into_keys", "into_values")):
            R.bad(rule, "%s/%s/edge-walk-not-over-the-entries" % (rule, fnlabel), it.where(),
                  "the walk that lists a vertex's edges is not a walk over the entries (label, target) of its edge map (%s): an entry "
                  "can pair the label of one edge with the target of another" % (reshaped or ["source: " + sm + "()"]),
                  {"iterator": show(it.it, it.body)[:300]})
            continue
        # the edges walked are those of the vertex being emitted (outer item), not of some other vertex
        src = strip_load(it.source)
        owner = strip_load(src[1])
        p = it.item_pred()
        # what is traced under a log-level test is not part of the listing
        evs = [e for e in it.body_events() if not any("Level" in repr(f) for f in e.facts)]
        lab = [e for e in evs if any(mentions(a, lambda x: x[0] == "field" and x[2] == "(tuple)::0" and mentions(x[1], p)) for a in e.args)]
        tgt = [e for e in evs if any(mentions(a, lambda x: x[0] == "field" and x[2] == "(tuple)::1" and mentions(x[1], p)) for a in e.args)]
        whole = [e for e in evs if e not in lab and e not in tgt]
        if it.form == "chain" and not evs:
            # consumer closure: events inside closures handed to adaptors mention the closure-bound item
            pass
        if not lab or (need_both and not tgt):
            if whole and not need_both:
                pass
            else:
                R.bad(rule, "%s/%s/edge-entry-incomplete" % (rule, fnlabel), it.where(),
                      "an edge entry does not carry both the edge's label and its target",
                      {"label_uses": len(lab), "target_uses": len(tgt), "iterator": show(it.it, it.body)})
                continue
        # no extra condition on the per-edge emission
        base = loop_context_facts(it)
        extra = []
        for e in lab + tgt:
            for f in e.facts:
                if strip_sites(f) in base:
                    continue
                if is_iter_protocol_fact(f) or is_try_continue(f) or "Level" in repr(f):
                    continue
                if not mentions(f, p):
                    continue
                if is_dot_styling_fact(f):
                    continue
                extra.append(show(f, e.body))
        if extra:
            R.bad(rule, "%s/%s/edge-entry-conditional" % (rule, fnlabel), it.where(),
                  "the entry of an edge is emitted only under a condition on the edge: some edges are not listed",
                  {"conditions": sorted(set(extra))})
        else:
            R.ok(rule, it.where(), "%s: one entry per item of the vertex's edge map, carrying that item's label%s, unconditionally"
                 % (fnlabel, " and target" if need_both else ""))


def loop_context_facts(it):
    """facts that hold at the loop's `next` (outer guards)"""
    if it.form != "loop":
        return set()
    return {strip_sites(f) for e in it.evs if e.kind == "call" and e.body is it.body and e.site == it.site for f in e.facts}


def is_iter_protocol_fact(f):
    return f[0] == "in" and strip_load(f[1])[0] == "discr" and strip_load(strip_load(f[1])[1])[0] == "next"


def is_try_continue(f):
    return f[0] == "in" and f[2] == frozenset(["Continue"])


def is_dot_styling_fact(f):
    """conditions that only select presentation attributes (label variant / character tests)"""
    if f[0] in ("in", "notin"):
        s = strip_load(f[1])
        if s[0] == "discr":
            inner = strip_load(s[1])
            # discriminant of the label itself
            return True if inner[0] in ("field", "item") else False
        return True if isinstance(next(iter(f[2])), int) and all(isinstance(v, int) and v > 127 for v in f[2]) else False
    return False


def xp3(F, R):
    for name in ("to_xml", "to_dot"):
        b = F.fn("Sodg", name)
        if b is None:
            R.missing("XP3", "Sodg::" + name)
            continue
        edge_emission(F, R, "XP3", "Sodg::" + name, b)


# ---------------------------------------------------------------- XP4: data entry
def data_emission(F, R, rule, fnlabel, b, subject="item"):
    """every use of a vertex's data in b is guarded by persistence != Empty — and by nothing narrower"""
    col = Collector(F)
    raw = col.collect(b)
    R.analysed(b, len(raw))
    uses = []
    for e in raw:
        if e.kind != "call":
            continue
        for a in e.args:
            # direct uses only: the argument is (a location below) the data field, not a value computed from it earlier
            for sub in base_chain(a):
                if sub[0] == "field" and sub[2] == "Vertex::data":
                    uses.append((e, strip_load(sub[1])))
    if not uses:
        R.bad(rule, "%s/%s/data-never-emitted" % (rule, fnlabel), b.where(),
              "%s never prints a vertex's data" % fnlabel)
        return
    seen = set()
    for e, vtx in uses:
        k = (id(e.body), e.site)
        if k in seen:
            continue
        seen.add(k)
        g = None
        narrow = None
        for f in e.facts:
            if f[0] in ("in", "notin") and is_pers_discr_of(f[1], vtx):
                allowed = (f[0] == "notin" and f[2] == frozenset(["Empty"])) or \
                          (f[0] == "in" and f[2] == frozenset(["Stored", "Taken"]))
                if allowed:
                    g = f
                elif (f[0] == "in" and "Empty" not in f[2]) or (f[0] == "notin" and "Empty" in f[2]):
                    narrow = f
        # ... and by nothing else about that vertex: a second condition on it (its edges, a helper's verdict on it) hides the data
        # of some vertices that have data
        extra = []
        if g is not None:
            vk = strip_sites(vtx)
            for f in e.facts:
                if f is g or "Level" in repr(f) or is_iter_protocol_fact(f) or is_try_continue(f):
                    continue
                if f[0] in ("in", "notin") and (is_pers_discr_of(f[1], vtx) or is_tag_of(f[1])):
                    continue
                if f[0] == "cmp" and (is_tag_of(f[2]) or is_tag_of(f[3])):
                    continue
                if mentions(f, lambda x: strip_sites(x) == vk) and \
                        mentions(f, lambda x: (x[0] == "field" and x[2] in ("Vertex::edges", "Vertex::data")) or
                                 (x[0] == "call" and not x[1].startswith(("core::", "std::", "alloc::", "<")) and "Level" not in x[1])):
                    extra.append(f)
        if g is not None and extra:
            R.bad(rule, "%s/%s/data-guard-too-narrow" % (rule, fnlabel), e.where(),
                  "data is printed only for some of the vertices that have data: besides `persistence != Empty` the entry depends on %s"
                  % "; ".join(show(f, e.body)[:100] for f in extra[:3]))
        elif g is not None:
            R.ok(rule, e.where(), "%s prints the data of exactly the vertices that have data (persistence ∉ {Empty})" % fnlabel)
        elif narrow is not None:
            R.bad(rule, "%s/%s/data-guard-too-narrow" % (rule, fnlabel), e.where(),
                  "data is printed only for some of the vertices that have data (%s)" % show(narrow, e.body))
        else:
            R.bad(rule, "%s/%s/data-not-guarded-by-has-data" % (rule, fnlabel), e.where(),
                  "a vertex's data field is printed without testing that the vertex has data (persistence != Empty): "
                  "blank or stale bytes of data-less vertices are shown",
                  {"guards": [show(f, e.body) for f in e.facts if "Level" not in repr(f)]})


def xp4(F, R):
    for name in ("to_xml", "to_dot"):
        b = F.fn("Sodg", name)
        if b is None:
            R.missing("XP4", "Sodg::" + name)
            continue
        data_emission(F, R, "XP4", "Sodg::" + name, b)


# ---------------------------------------------------------------- C20
def in1(F, R):
    """guarded recursion in inspect(): the recursive call is control-dependent on `seen.contains(target)` being false,
    and the visited vertex / target is marked before descending"""
    b = F.fn("Sodg", "inspect")
    if b is None:
        R.missing("IN1", "Sodg::inspect")
        return
    # call closure from inspect; find recursive functions
    col = Collector(F, depth=0)
    rec = None
    for cand in F.all_bodies():
        if cand.kind == "Closure" or cand.self_adt != "Sodg":
            continue
        raw = Collector(F, depth=0).collect(cand)
        for e in raw:
            if e.kind == "call" and e.path == cand.path:
                rec = (cand, raw)
        if rec and rec[0] is cand:
            if reachable_from(F, b, cand):
                break
            rec = None
    if rec is None:
        # no recursion: termination is structural only if there is no loop over reachable vertices — fail closed
        R.missing("IN1", "recursive descent reachable from inspect()", b.where())
        return
    cand, raw = rec
    R.analysed(cand, len(raw))
    R.analysed(b)
    calls = [e for e in raw if e.kind == "call" and e.path == cand.path]
    marks = [e for e in raw if e.kind == "call" and e.name == "insert" and "HashSet" in e.path]
    for e in calls:
        tgt = e.args[1] if len(e.args) > 1 else None
        seen_arg = [a for a in e.args if "HashSet" in type_hint(cand, a)] or [e.args[-1]]
        # guard: !contains(seen, target)
        g = None
        marked_by_test = False
        for f in e.facts:
            if f[0] == "bool" and f[2] is False:
                ce = strip_load(f[1])
                if ce[0] == "call" and ce[1].endswith("::contains") and "HashSet" in ce[1]:
                    if strip_sites(strip_load(ce[2][1])) == strip_sites(strip_load(tgt)) or \
                            strip_sites(deref_item(ce[2][1])) == strip_sites(deref_item(tgt)):
                        g = f
            if f[0] == "bool" and f[2] is True:
                # `if seen.insert(target)`: test and mark in one step
                ce = strip_load(f[1])
                if ce[0] == "call" and ce[1].endswith("::insert") and "HashSet" in ce[1] and \
                        strip_sites(unload(ce[2][1])) == strip_sites(unload(tgt)):
                    g = f
                    marked_by_test = True
        if g is None:
            R.bad("IN1", "IN1/Sodg::inspect/recursion-not-guarded-by-seen", e.where(),
                  "the recursive descent is not restricted to vertices that have not been visited: inspect() does not "
                  "terminate on a cyclic graph",
                  {"guards": [show(f, e.body) for f in e.facts if "Level" not in repr(f)]})
            continue
        # mark: callee marks its parameter on entry (unconditionally), or caller marks the target before the call
        marked = marked_by_test
        for m in marks:
            if m.body is cand and m.uncond and strip_sites(strip_load(m.args[1])) == ("param", 2):
                marked = True
            if strip_sites(deref_item(m.args[1])) == strip_sites(deref_item(tgt)) and m.body is e.body and \
                    m.body.dominates(m.site, e.site):
                marked = True
        # the descent continues with the *same* visited set: a copy forgets what a sibling's subtree visited
        shared = all(strip_load(unload(a))[0] == "param" or strip_load(a)[0] == "param" for a in seen_arg) and \
            not any(mentions(a, lambda x: x[0] == "call" and x[1].split("::")[-1] in ("clone", "to_owned", "cloned", "new", "default")) for a in seen_arg)
        if not marked:
            R.bad("IN1", "IN1/Sodg::inspect/visited-not-marked", e.where(),
                  "a vertex is never recorded as visited before the descent continues: a cycle is walked forever")
        elif not shared:
            R.bad("IN1", "IN1/Sodg::inspect/visited-set-not-shared", e.where(),
                  "the recursive call does not get the visited set itself (%s): what one subtree visited is unknown to the next, and a vertex "
                  "with two parents is listed twice" % [show(a, e.body)[:60] for a in seen_arg])
        else:
            R.ok("IN1", e.where(), "recursive descent guarded by !seen.contains(target); vertex marked before descending")
    R.floor("IN1", "recursive calls in the inspect descent", len(calls), 1, cand.where())
    # the descent lists what it finds: it builds no Err of its own for a vertex whose slot exists (an edge may lead into a group that
    # was collected since — the slot is still there)
    for site, kind, st in cand.sites():
        if not (kind == "stmt" and st["k"] == "assign" and st["rv"]["k"] == "aggregate" and st["rv"].get("variant") == "Err"):
            continue
        facts = cand.facts_at(site)
        no_slot = any(f[0] == "in" and f[2] == frozenset(["None"]) and strip_load(f[1])[0] == "discr" and
                      mentions(f[1], lambda x: x[0] == "field" and x[2] == "Sodg::vertices") for f in facts)
        beyond = any(f[0] == "cmp" and f[1] == "<=" and strip_load(f[2])[0] == "call" and strip_load(f[2])[1].split("::")[-1] == "capacity" and
                     strip_load(f[3])[0] == "param" for f in facts)
        if not (no_slot or beyond):
            R.bad("IN1", "IN1/Sodg::inspect/own-error", cand.where(site),
                  "the descent refuses a vertex whose slot exists (an Err built here): inspect() of a present vertex fails when an edge leads "
                  "to a vertex that is absent by now", {"guards": [show(f, cand)[:100] for f in facts if "Level" not in repr(f)][:5]})
    # the vertex the walk starts from is itself recorded as visited (otherwise a cycle back to it expands it twice):
    # the descent marks its own parameter on entry, or whoever starts the descent marks the start vertex first
    self_mark = any(m.body is cand and m.uncond and strip_sites(strip_load(m.args[1])) == ("param", 2) for m in marks)
    if not self_mark:
        starts = 0
        for root in F.roots():
            if root is cand or root.kind == "Closure" or not reachable_from(F, root, cand):
                continue
            rraw = Collector(F, depth=0).collect(root)
            for e in rraw:
                if not (e.kind == "call" and e.path == cand.path and len(e.args) > 1):
                    continue
                starts += 1
                tgt = e.args[1]
                pre = [m for m in rraw if m.kind == "call" and m.name == "insert" and "HashSet" in m.path and m.body is e.body and
                       strip_sites(unload(m.args[1])) == strip_sites(unload(tgt)) and m.body.dominates(m.site, e.site)]
                # ... or the visited set is created already holding it: HashSet::from([v])
                def holds_start(a):
                    a = unload(a)
                    if a[0] == "call" and a[1].split("::")[-1] in ("from", "from_iter") and ("HashSet" in a[1] or "BTreeSet" in a[1]) and a[2]:
                        arr = strip_load(a[2][0])
                        for _ in range(3):
                            if arr[0] in ("cast",):
                                arr = strip_load(arr[2])
                            elif arr[0] == "iter":
                                arr = strip_load(arr[1])
                        return arr[0] == "array" and any(strip_sites(unload(x)) == strip_sites(unload(tgt)) for x in arr[1])
                    return False
                if pre or any(holds_start(a) for a in e.args):
                    R.ok("IN1", e.where(), "the start vertex is marked visited before the descent starts")
                else:
                    R.bad("IN1", "IN1/Sodg::inspect/start-vertex-not-marked-visited", e.where(),
                          "the vertex the walk starts from is never recorded as visited: on a cycle that leads back to it, it is "
                          "expanded a second time and its edges are listed twice")
        if not starts:
            R.missing("IN1", "call that starts the inspect descent", b.where())


def deref_item(e):
    e = strip_load(e)
    return e


def type_hint(body, a):
    return repr(a)


def reachable_from(F, root, target):
    seen = set()
    st = [root.path]
    while st:
        p = st.pop()
        if p in seen:
            continue
        seen.add(p)
        if p == target.path:
            return True
        b = F.bodies.get(p)
        if b is None:
            continue
        for site, t in b.calls():
            c = t["callee"]
            if c.get("local") and c.get("path") in F.bodies:
                st.append(c["path"])
        for cb in F.closures_of(b):
            st.append(cb.path)
    return False


def in2(F, R):
    """exactly one line per edge of the visited vertex, with that edge's label and target"""
    b = F.fn("Sodg", "inspect")
    if b is None:
        R.missing("IN2", "Sodg::inspect")
        return
    # find the descent function (the one iterating edges)
    done = False
    for cand in [b] + [x for x in F.all_bodies() if x.kind != "Closure" and x.self_adt == "Sodg" and x is not b]:
        if cand is not b and not reachable_from(F, b, cand):
            continue
        eits, raw = iterations(F, cand, is_edges_field, stop=(cand.name,))
        if not eits:
            continue
        done = True
        # a chain that only feeds a `collect()` which is then walked is that walk's source, not a second listing
        eits = [it for it in eits if not any(o is not it and mentions(o.it, lambda x: strip_sites(x) == strip_sites(it.it)) for o in eits)]
        for it in eits:
            if getattr(it, "breaks", None):
                R.bad("IN2", "IN2/Sodg::inspect/edge-walk-stops-early", it.where(),
                      "the walk over a visited vertex's edges can be left before the last edge: the remaining edges are not listed")
                continue
            dropped = [an for an, _ in it.adaptors if an in ("filter", "skip", "take", "step_by", "skip_while",
                                                              "take_while", "filter_map", "dedup", "unique")]
            if dropped:
                R.bad("IN2", "IN2/Sodg::inspect/edges-filtered", it.where(),
                      "inspect() does not list every edge of a visited vertex (%s)" % dropped)
                continue
            kc = keyed_collect_problem(F, it)
            if kc:
                R.bad("IN2", "IN2/Sodg::inspect/edges-collapsed-by-key", it.where(),
                      "the edges of a visited vertex were first %s: two labels bound to the same target collapse into one line" % kc,
                      {"iterator": show(it.it, it.body)[:300]})
                continue
            # edges of the vertex named by the function's parameter
            src = strip_load(it.source)
            v = vertex_of(src[1])
            if v is None or strip_load(v[1]) != ("param", 2):
                R.bad("IN2", "IN2/Sodg::inspect/edges-of-other-vertex", it.where(),
                      "the edges listed are not those of the vertex being visited", {"source": show(src, it.body)})
                continue
            # a push of a line mentioning label and target, not conditional on `seen`
            p = it.item_pred()
            pushes = [e for e in it.evs if e.kind == "call" and e.name == "push" and "Vec" in e.path]
            line_pushes = []
            for e in pushes:
                a = e.args[1] if len(e.args) > 1 else None
                if a is not None and mentions(a, p):
                    line_pushes.append(e)
            # what goes into the text of the line: arguments of the formatting machinery, not the bookkeeping around it
            # (`seen.contains(e.1)`, the recursive call) which also mentions the target
            fmt = [e for e in it.body_events() if e.kind == "call" and not any("Level" in repr(f) for f in e.facts) and ("fmt::" in e.path or e.name in ("to_string", "push_str", "write_str", "write_fmt")
                                                                       or (e.name in ("push", "push_back", "extend") and e in pushes))]
            def printed(a, pred):
                """pred holds for a sub-expression that is printed as such: not one that only feeds a call of the crate's own
                functions (the recursive descent's result is text about the *target's* edges, not the target)"""
                if isinstance(a, tuple) and a:
                    if isinstance(a[0], str):
                        if pred(a):
                            return True
                        if a[0] == "call" and not a[1].startswith(("core::", "std::", "alloc::", "<")):
                            return False
                    return any(printed(x, pred) for x in a if isinstance(x, tuple))
                return False
            has_l = any(printed(a, lambda x: x[0] == "field" and x[2] == "(tuple)::0" and mentions(x[1], p)) for e in fmt for a in e.args)
            has_t = any(printed(a, lambda x: x[0] == "field" and x[2] == "(tuple)::1" and mentions(x[1], p)) for e in fmt for a in e.args)
            if not (has_l and has_t):
                R.bad("IN2", "IN2/Sodg::inspect/edge-line-incomplete", it.where(), "an edge line lacks the label or the target")
                continue
            # the edge's own line is pushed on every pass: unconditionally w.r.t. the item, or by line pushes that together
            # cover every way through the loop body
            ok_push = False
            for e in pushes:
                fs = [f for f in e.facts if mentions(f, p) and not is_iter_protocol_fact(f)]
                if not fs:
                    ok_push = True
            if not ok_push and line_pushes:
                lb = line_pushes[0].body
                blocks = {e.site[0] for e in line_pushes if e.body is lb}
                if it.form == "loop" and lb is it.body:
                    start = [s2 for s2, lab in lb.succ[it.site[0]]]          # into the body / out of the loop
                    hdr = it.site[0]
                    # can the header be reached again from the body without passing a line push?
                    seen_b = set()
                    st = [x for x in start if x not in blocks]
                    leak = False
                    body_blocks = {bi for bi in lb.reachable if any(is_iter_protocol_fact(f) and f[2] == frozenset(["Some"]) and
                                                                     strip_sites(strip_load(strip_load(f[1])[1])[1]) == strip_sites(it.it)
                                                                     for f in lb.facts_in().get(bi, frozenset()))}
                    # the `next` call is followed by the block that switches on its result: step over it into the Some arm
                    st2 = []
                    for x in st:
                        if x in body_blocks:
                            st2.append(x)
                        else:
                            st2 += [y for y, _ in lb.succ[x] if y in body_blocks]
                    st = st2
                    while st:
                        x = st.pop()
                        if x in seen_b or x in blocks:
                            continue
                        seen_b.add(x)
                        for s2, _ in lb.succ[x]:
                            if s2 == hdr:
                                leak = True
                            elif s2 in body_blocks:
                                st.append(s2)
                    ok_push = not leak
                else:
                    # closure body handed to for_each: every returning path passes a line push
                    seen_b = set()
                    st = [0]
                    leak = False
                    while st:
                        x = st.pop()
                        if x in seen_b or x in blocks:
                            continue
                        seen_b.add(x)
                        if lb.blocks[x]["term"]["k"] == "return":
                            leak = True
                        st.extend(s2 for s2, _ in lb.succ[x])
                    ok_push = not leak
            if not ok_push:
                R.bad("IN2", "IN2/Sodg::inspect/edge-line-conditional", it.where(),
                      "the line of an edge is pushed only under a condition on the edge (e.g. only for unvisited targets): "
                      "edges into already visited vertices are not listed")
            else:
                R.ok("IN2", it.where(), "inspect(): one line per edge of the visited vertex with its label and target, unconditionally")
    if not done:
        R.missing("IN2", "edge iteration in the inspect descent", b.where())


def in3(F, R):
    """Debug/Display list exactly the present vertices with all edges and data"""
    xp1(F, R, only=("Sodg::fmt(Debug)",))
    dbg = F.fn("Sodg", "fmt", "std::fmt::Debug")
    dsp = F.fn("Sodg", "fmt", "std::fmt::Display")
    if dbg is None:
        R.missing("IN3", "<Sodg as Debug>::fmt")
        return
    if dsp is None:
        R.missing("IN3", "<Sodg as Display>::fmt")
    else:
        R.analysed(dsp)
        ok = False
        for site, t in dsp.calls():
            c = t["callee"]
            if c.get("decl") == "std::fmt::Debug::fmt" and ("Sodg" in c.get("gargs", "") or "Sodg" in c.get("path", "")):
                ok = True
        if ok:
            R.ok("IN3", dsp.where(), "Display delegates to Debug")
        else:
            R.bad("IN3", "IN3/Sodg::fmt(Display)/not-delegating", dsp.where(), "Display for Sodg does not delegate to Debug")
    edge_emission(F, R, "IN3", "Sodg::fmt(Debug)", dbg)
    data_emission(F, R, "IN3", "Sodg::fmt(Debug)", dbg)


def in4(F, R):
    """v_print: data marker iff has data; lists exactly v's labels"""
    b = F.fn("Sodg", "v_print")
    if b is None:
        R.missing("IN4", "Sodg::v_print")
        return
    col = Collector(F)
    raw = col.collect(b)
    R.analysed(b, len(raw))
    # marker: the places where the marker string / the empty string is chosen, and what is known there about V(v)
    found = False
    has, hasnot = [], []
    for site, kind, st in b.sites():
        if kind == "stmt" and st["k"] == "assign" and st["rv"]["k"] == "use" and st["rv"]["op"]["k"] == "const":
            e = b.expr_const(st["rv"]["op"])
            if e[0] == "str":
                (has if "Δ" in e[1] else hasnot if e[1] == "" else []).append(site)
    pv = None
    for site in has:
        facts = b.facts_at(site)
        ok_here = False
        for f in facts:
            if f[0] in ("in", "notin") and is_pers_discr_of(f[1]):
                inner = strip_load(strip_load(f[1])[1])
                v = vertex_of(inner[1])
                if v is not None and strip_load(v[1]) == ("param", 2):
                    if (f[0] == "notin" and f[2] == frozenset(["Empty"])) or (f[0] == "in" and f[2] == frozenset(["Stored", "Taken"])):
                        ok_here = True
                    elif f[0] == "in" and f[2] == frozenset(["Empty"]):
                        R.bad("IN4", "IN4/Sodg::v_print/marker-swapped", b.where(site), "the data marker is shown exactly when the vertex has NO data")
                        return
                    else:
                        R.bad("IN4", "IN4/Sodg::v_print/marker-guard", b.where(site),
                              "the data marker depends on something other than 'has data' (persistence != Empty): %s" % show(f, b))
                        return
        if ok_here:
            found = True
        else:
            found = False
            break
    if found:
        # and the empty alternative is chosen only without data
        for site in hasnot:
            facts = b.facts_at(site)
            for f in facts:
                if f[0] == "in" and is_pers_discr_of(f[1]) and "Empty" not in f[2]:
                    R.bad("IN4", "IN4/Sodg::v_print/marker-swapped", b.where(site), "no marker is shown for a vertex that has data")
                    return
        R.ok("IN4", b.where(), "v_print shows the data marker iff persistence ∉ {Empty} of the printed vertex")
    else:
        R.bad("IN4", "IN4/Sodg::v_print/marker-not-tied-to-has-data", b.where(),
              "cannot establish IN4: the data marker is not selected by 'the printed vertex has data' (persistence != Empty)")
    eits, _ = iterations(F, b, is_edges_field)
    if not eits:
        R.missing("IN4", "iteration over the vertex's edges in v_print", b.where())
    for it in eits:
        if getattr(it, "breaks", None):
            R.bad("IN4", "IN4/Sodg::v_print/label-walk-stops-early", it.where(), "the walk over the vertex's labels can be left before the last one")
            continue
        src = strip_load(it.source)
        v = vertex_of(src[1])
        dropped = [an for an, _ in it.adaptors if an in ("filter", "skip", "take", "step_by", "skip_while", "take_while",
                                                          "filter_map", "dedup", "unique")]
        if v is None or strip_load(v[1]) != ("param", 2):
            R.bad("IN4", "IN4/Sodg::v_print/edges-of-other-vertex", it.where(), "labels listed are not those of the printed vertex")
        elif dropped:
            R.bad("IN4", "IN4/Sodg::v_print/labels-filtered", it.where(), "not every label of the vertex is listed (%s)" % dropped)
        else:
            # the mapped closure uses the label (.0)
            uses_label = False
            for an, extra in it.adaptors:
                if an == "map":
                    cb = closure_of(F, extra[0])
                    if cb is not None:
                        for site, t in cb.calls():
                            for a in cb.call_args(t, site):
                                if mentions(deref_addr(cb, a), lambda x: x[0] == "field" and x[2] == "(tuple)::0"):
                                    uses_label = True
            p = it.item_pred()
            for e in it.body_events():
                if any(mentions(a, lambda x: x[0] == "field" and x[2] == "(tuple)::0" and mentions(x[1], p)) for a in e.args):
                    uses_label = True
            if source_method(it.it) == "keys":
                # edges.keys(): the item is the label itself; whatever is done per item is done with the label
                uses_label = True
            if uses_label:
                R.ok("IN4", it.where(), "v_print lists one label per edge of the printed vertex")
            else:
                R.bad("IN4", "IN4/Sodg::v_print/label-not-printed", it.where(), "the per-edge entry does not print the edge's label")


def selected_string(b, bb):
    """string constant assigned in block bb (the arm selected by a switch edge), following gotos"""
    for _ in range(4):
        blk = b.blocks[bb]
        for s in blk["stmts"]:
            if s["k"] == "assign" and s["rv"]["k"] == "use" and s["rv"]["op"]["k"] == "const":
                e = b.expr_const(s["rv"]["op"])
                if e[0] == "str":
                    return e[1]
        t = blk["term"]
        if t["k"] == "goto":
            bb = t["target"]
            continue
        break
    return None

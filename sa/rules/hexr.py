"""C15 / C16: Hex — HX1..HX5, CC1..CC3."""
import re
from core import *
from model import *

HEX_SIZE = 8


def is_inline_array(e):
    """the [u8; 8] payload of Hex::Bytes of some Hex value"""
    c = strip_load(e)
    return c[0] == "vfield" and c[2] == "Bytes" and c[3] == "0"


def is_inline_len(e, of=None):
    c = strip_load(e)
    if c[0] == "vfield" and c[2] == "Bytes" and c[3] == "1":
        return of is None or strip_sites(c[1]) == strip_sites(of)
    return False


def hex_of(e):
    c = strip_load(e)
    return strip_load(c[1]) if c[0] == "vfield" else None


def index_accesses(body):
    """every indexing of an array/slice in the body: (site, base, index-expr, how)"""
    out = []
    for site, kind, s in body.sites():
        places = []
        if kind == "stmt" and s["k"] == "assign":
            places.append(s["lhs"])
            rv = s["rv"]
            if rv["k"] in ("ref", "rawptr", "discr"):
                places.append(rv["place"])
            for key in ("op", "l", "r", "x"):
                o = rv.get(key)
                if isinstance(o, dict) and o.get("k") in ("copy", "move"):
                    places.append(o["place"])
            for o in rv.get("ops", []):
                if o.get("k") in ("copy", "move"):
                    places.append(o["place"])
        elif kind == "term" and s["k"] == "call":
            for o in s["args"]:
                if o.get("k") in ("copy", "move"):
                    places.append(o["place"])
            c = s["callee"]
            if c.get("decl") in ("std::ops::Index::index", "std::ops::IndexMut::index_mut") and not c.get("local"):
                args = body.call_args(s, site)
                out.append((site, deref_addr(body, args[0]), deref_addr(body, args[1]), "call"))
        for p in places:
            for n, e in enumerate(p["proj"]):
                if e["k"] in ("index", "constindex", "subslice"):
                    prefix = {"local": p["local"], "proj": p["proj"][:n], "ty": ""}
                    base = body.expr_place(prefix, site)
                    if e["k"] == "index":
                        idx = body.expr_local(e["local"], site)
                    elif e["k"] == "constindex":
                        idx = ("const", e["offset"])
                    else:
                        idx = ("subslice", e["from"], e["to"], e["from_end"])
                    out.append((site, base, idx, "place"))
    return out


def index_kind(body):
    """'usize' | 'Range' | 'RangeFrom' | ... from the impl's trait ref"""
    m = re.search(r"Index(?:Mut)?<(?:std::ops::)?(\w+)", body.trait_ref or "")
    return m.group(1) if m else None


def other_edge_diverges(body, fact):
    """the switch edge that negates `fact` cannot reach a normal return"""
    for bi in sorted(body.reachable):
        t = body.blocks[bi]["term"]
        if t["k"] != "switch":
            continue
        edges = [(tgt, body.edge_fact(bi, lab)) for tgt, lab in body.succ[bi]]
        for tgt, f in edges:
            if f is not None and strip_sites(f) == strip_sites(fact):
                others = [t2 for t2, f2 in edges if t2 != tgt]
                return all(o not in body.can_return for o in others)
    return None


# ---------------------------------------------------------------- HX1
def expected_bound(kind, idx, body):
    """(operator, what-of-index) the inline arm must test against the length"""
    return {
        "usize": ("<", "index"),
        "Range": ("<=", "end"),
        "RangeTo": ("<=", "end"),
        "RangeInclusive": ("<", "end"),
        "RangeToInclusive": ("<", "end"),
        "RangeFrom": ("<=", "start"),
        "RangeFull": (None, None),
    }.get(kind)


def index_part(e, part):
    """does expression e denote `part` (index / start / end) of the index parameter (param 2)?"""
    c = strip_load(e)
    if part == "index":
        return c == ("param", 2)
    if c[0] == "field" and c[2].endswith("::" + part) and strip_load(c[1]) == ("param", 2):
        return True
    if c[0] == "call" and c[1].split("::")[-1] == part and c[2] and strip_load(c[2][0]) == ("param", 2):
        return True
    return False


def hx1(F, R):
    impls = [b for b in F.all_bodies() if b.self_adt == "Hex" and b.kind == "AssocFn" and
             b.trait in ("std::ops::Index", "std::ops::IndexMut")]
    R.floor("HX1", "Index/IndexMut impls for Hex", len(impls), 8)
    for b in impls:
        kind = index_kind(b)
        label = "Hex::%s<%s>" % (b.name, kind)
        R.analysed(b, sum(1 for _ in b.sites()))
        exp = expected_bound(kind, None, b)
        if exp is None:
            R.bad("HX1", "HX1/%s/unknown-index-kind" % label, b.where(), "cannot establish HX1: index type %s not in the bounds table" % kind)
            continue
        accs = [(s, base, idx, how) for (s, base, idx, how) in index_accesses(b) if is_inline_array(base)]
        deleg = [(s, base, idx, how) for (s, base, idx, how) in index_accesses(b)
                 if strip_load(base)[0] == "call" and strip_load(base)[1].endswith("::bytes")]
        if not accs and deleg:
            R.ok("HX1", b.where(), "%s delegates to bytes()" % label)
            continue
        if not accs:
            R.bad("HX1", "HX1/%s/inline-access-missing" % label, b.where(), "cannot establish HX1: no access to the inline array found")
            continue
        for site, base, idx, how in accs:
            h = hex_of(base)
            facts = b.facts_at(site)
            detail = {"access": "%s[%s]" % (show(base, b), show(idx, b)),
                      "guards": [show(f, b) for f in sorted(facts, key=repr) if "Level" not in repr(f)]}
            op, part = exp
            lenfacts = [f for f in facts if f[0] == "cmp" and (is_inline_len(f[2], h) or is_inline_len(f[3], h))]
            if op is None:
                # RangeFull: the access itself must be 0..len
                i = strip_load(idx)
                ok = i[0] == "agg" and i[1] == "Range" and strip_load(dict(i[3])["start"]) == ("const", 0) and is_inline_len(dict(i[3])["end"], h)
                ok = ok or (i[0] == "agg" and i[1] == "RangeTo" and is_inline_len(dict(i[3])["end"], h))
                if ok:
                    R.ok("HX1", b.where(site), "%s: inline arm is array[0..len]" % label, detail)
                else:
                    R.bad("HX1", "HX1/%s/full-range-not-len-bounded" % label, b.where(site),
                          "the full range of an inline Hex is not the array cut to its length: padding bytes are exposed", detail)
                continue
            good = None
            wrong = None
            for f in lenfacts:
                # normalised orientation: ("cmp", "<"|"<=", a, b)
                if is_inline_len(f[3], h) and index_part(f[2], part):
                    if f[1] == op:
                        good = f
                    else:
                        wrong = f
                elif is_inline_len(f[2], h) and index_part(f[3], part):
                    # len < x / len <= x on the taken edge: this is the negated form, i.e. the access is on the wrong edge
                    wrong = f
            if good is None:
                if wrong is not None:
                    weaker = (op == "<" and wrong[1] == "<=")
                    R.bad("HX1", "HX1/%s/bound-operator" % label, b.where(site),
                          "the inline arm tests `%s` where the byte slice's own bound is `%s %s len`: %s"
                          % (show(wrong, b), part, op,
                             "an index one past the end reads a padding byte instead of panicking" if weaker else
                             "a legal index panics / the access sits on the wrong edge"), detail)
                else:
                    R.bad("HX1", "HX1/%s/unbounded-inline-access" % label, b.where(site),
                          "the inline array is indexed without testing the index against the Hex's length: bytes of the "
                          "padding are readable and the panic boundary differs from the byte slice's", detail)
                continue
            div = other_edge_diverges(b, good)
            if div is not True:
                R.bad("HX1", "HX1/%s/out-of-range-does-not-panic" % label, b.where(site),
                      "the out-of-range edge of the inline arm returns normally instead of panicking", detail)
                continue
            # RangeFrom: the access is start..len
            if kind == "RangeFrom":
                i = strip_load(idx)
                ok = i[0] == "agg" and i[1] == "Range" and index_part(dict(i[3])["start"], "start") and is_inline_len(dict(i[3])["end"], h)
                if not ok:
                    R.bad("HX1", "HX1/%s/tail-not-cut-at-len" % label, b.where(site),
                          "an open-ended range of an inline Hex is not cut at its length: padding bytes are exposed", detail)
                    continue
            elif kind != "usize":
                if strip_load(idx) != ("param", 2):
                    R.bad("HX1", "HX1/%s/range-altered" % label, b.where(site), "the range applied to the array is not the caller's range", detail)
                    continue
            R.ok("HX1", b.where(site), "%s: inline access guarded by `%s %s len`, other edge panics" % (label, part, op), detail)
        # every value the impl returns is an access of the bytes (the inline array, the heap vector, or bytes()): a literal or a
        # value built elsewhere (`&[]` for an "empty" range) returns normally where the byte slice's own index panics
        def _alts(x, acc, depth=0):
            x = strip_load(x)
            if x[0] == "phi" and depth < 6:
                for y in x[1]:
                    _alts(y, acc, depth + 1)
            else:
                acc.append(x)
            return acc
        for r in b.returns:
            for x in _alts(b.expr_local(0, (r, b.term_idx(r))), []):
                base = strip_load(x[1]) if x[0] in ("elem", "slice", "index") and len(x) > 1 else None
                ok = base is not None and ((base[0] == "vfield" and strip_load(base[1]) == ("param", 1) and base[3] == "0") or
                                           (base[0] == "call" and base[1].endswith("::bytes")))
                if not ok:
                    R.bad("HX1", "HX1/%s/result-not-an-access-of-the-bytes" % label, b.where((r, b.term_idx(r))),
                          "the impl can return a value that is not an element / sub-slice of the Hex's own bytes (a literal, an empty slice "
                          "for an \"empty\" range): it returns normally for an index on which the byte slice's own indexing panics "
                          "(a reversed range, an empty range past the end)", {"value": show(x, b)[:200]})
        # Vector arm: plain delegation to the Vec with the caller's index
        vec = [(s, base, idx, how) for (s, base, idx, how) in index_accesses(b)
               if strip_load(base)[0] == "vfield" and strip_load(base)[2] == "Vector"]
        for site, base, idx, how in vec:
            if strip_load(idx) != ("param", 2):
                R.bad("HX1", "HX1/%s/vector-arm-index-altered" % label, b.where(site), "the heap arm does not index with the caller's index")


# ---------------------------------------------------------------- HX2
ENCAPSULATED = [("eq", "std::cmp::PartialEq"), ("print", None), ("to_vec", None), ("byte_at", None), ("tail", None),
                ("to_i64", None), ("to_f64", None), ("to_utf8", None), ("is_empty", None), ("to_bool", None),
                ("fmt", "std::fmt::Debug"), ("fmt", "std::fmt::Display")]


def touches_representation(body):
    """sites where the body reads Hex's discriminant or a variant payload directly"""
    out = []
    for site, kind, s in body.sites():
        txts = []
        if kind == "stmt" and s["k"] == "assign":
            rv = s["rv"]
            if rv["k"] == "discr" and rv.get("adt") == "Hex":
                out.append((site, "discriminant"))
            places = [s["lhs"]]
            if rv["k"] in ("ref", "rawptr"):
                places.append(rv["place"])
            for key in ("op", "l", "r", "x"):
                o = rv.get(key)
                if isinstance(o, dict) and o.get("k") in ("copy", "move"):
                    places.append(o["place"])
            for p in places:
                for e in p["proj"]:
                    if e["k"] == "downcast" and e.get("adt") == "Hex":
                        out.append((site, "payload of " + e["variant"]))
    return out


def inline_bytes_idiom(body):
    """every use of an inline array ([u8; 8] payload of Hex::Bytes) in the body is `array[..len]` / `array[0..len]` with len the
    length field of the *same* Hex value; the array is never copied, compared, unsized or indexed otherwise"""
    approved = set()
    for site, base, idx, how in index_accesses(body):
        if not is_inline_array(base):
            continue
        h = hex_of(base)
        i = strip_load(idx)
        ok = i[0] == "agg" and ((i[1] == "RangeTo" and is_inline_len(dict(i[3])["end"], h)) or
                                (i[1] == "Range" and strip_load(dict(i[3])["start"]) == ("const", 0) and is_inline_len(dict(i[3])["end"], h)))
        if not ok or how != "call":
            return False
        approved.add(site)
    def has_len(e):
        """the length field occurs in e other than as the cut of an inline array"""
        if not isinstance(e, tuple) or not e:
            return False
        if isinstance(e[0], str):
            if e[0] == "vfield" and len(e) > 3 and e[2] == "Bytes" and e[3] == "1":
                return True
            if e[0] == "call" and e[1].split("::")[-1] in ("index", "index_mut") and len(e) > 2 and e[2] and is_inline_array(e[2][0]):
                return False
            if e[0] == "slice" and len(e) > 2 and is_inline_array(e[1]):
                return False        # the result of such a cut (its shape is checked where it is made)
        return any(has_len(x) for x in e if isinstance(x, tuple))
    for site, kind, s in body.sites():
        # the length field is used for that cut and for nothing else (`Bytes(_, 0) => ..` treats an empty inline value differently
        # from an empty heap value)
        if kind == "term" and s["k"] == "switch":
            try:
                if has_len(body.expr_operand(s["op"], site)):
                    return False
            except Exception:
                return False
        if kind == "stmt" and s["k"] == "assign" and s["rv"]["k"] in ("binop", "unop", "cast"):
            try:
                if has_len(body.expr_rvalue(s["rv"], site)):
                    return False
            except Exception:
                return False
        if kind == "term" and s["k"] == "call":
            if site in approved:
                continue
            for a in body.call_args(s, site):
                if is_inline_array(deref_addr(body, a)) or is_inline_array(a):
                    return False
                if has_len(a) or has_len(deref_addr(body, a)):
                    return False
        elif kind == "stmt" and s["k"] == "assign":
            rv = s["rv"]
            if rv["k"] in ("ref", "rawptr"):
                continue            # binding `a` of the pattern `Bytes(a, n)`
            try:
                e = body.expr_rvalue(rv, site)
            except Exception:
                return False
            if rv["k"] == "cast" and len(e) > 2 and is_inline_array(e[2]):
                return False
            if rv["k"] == "use" and is_inline_array(e):
                return False
            if rv["k"] == "aggregate" and any(is_inline_array(x[1]) if isinstance(x, tuple) and len(x) == 2 else False for x in (e[3] if len(e) > 3 else ())):
                return False
    return True


def hx7(F, R):
    """tail(skip) is the byte slice bytes()[skip..] — including its panic when skip > len: every value it returns is built from that
    slice, or is the empty value exactly where skip == len"""
    b = F.fn("Hex", "tail")
    if b is None:
        R.missing("HX7", "Hex::tail")
        return
    R.analysed(b)
    n = 0
    for d in b.defs().get(0, []):
        site = (d[0], d[1])
        try:
            v = strip_load(b.expr_rvalue(d[3], site) if d[2] == "assign" else b.expr_call(d[3], site))
        except Exception:
            continue
        n += 1
        from_slice = mentions(v, lambda x: (x[0] == "slice" or (x[0] == "call" and x[1].split("::")[-1] in ("index", "get"))) and
                              mentions(x, lambda y: y[0] == "call" and y[1].split("::")[-1] == "bytes" and "Hex" in y[1]) and
                              mentions(x, lambda y: y == ("param", 2)))
        unchecked = mentions(v, lambda x: x[0] == "call" and x[1].split("::")[-1] in ("get", "unwrap_or", "unwrap_or_default", "saturating_sub", "min"))
        if from_slice and not unchecked:
            R.ok("HX7", b.where(site), "tail(skip) = from the slice bytes()[skip..]")
            continue
        is_empty = v[0] == "call" and v[1].split("::")[-1] == "empty" and "Hex" in v[1]
        at_end = False
        for f in b.facts_at(site):
            if f[0] == "cmp" and f[1] == "==":
                sides = [strip_load(f[2]), strip_load(f[3])]
                if any(x == ("param", 2) for x in sides) and any(x[0] == "call" and x[1].split("::")[-1] == "len" for x in sides):
                    at_end = True
        if is_empty and at_end:
            R.ok("HX7", b.where(site), "tail(len) = the empty value")
        else:
            R.bad("HX7", "HX7/Hex::tail/not-the-slice-from-skip", b.where(site),
                  "tail(skip) returns something that is not built from bytes()[skip..] (%s): it does not panic / answer as the byte slice "
                  "does (e.g. skip > len gives an empty value instead of a panic)" % show(v, b)[:100])
    R.floor("HX7", "results of tail()", n, 1, b.where())


def hx2(F, R):
    n = 0
    for name, trait in ENCAPSULATED:
        b = F.fn("Hex", name, trait)
        label = "Hex::%s%s" % (name, ("(%s)" % trait.split("::")[-1]) if trait else "")
        if b is None:
            R.missing("HX2", label)
            continue
        bodies = [b] + F.closures_of(b)
        bad = []
        for bb in bodies:
            R.analysed(bb, sum(1 for _ in bb.sites()))
            bad += [(bb, s, w) for s, w in touches_representation(bb)]
        n += 1
        if bad and all(inline_bytes_idiom(bb) for bb in bodies):
            # the function spells out what bytes() does: the inline array is only ever used cut at its own length field
            R.ok("HX2", b.where(), "%s matches on the representation but uses the inline array only as array[..len] of the same value" % label)
            continue
        if bad:
            bb, s, w = bad[0]
            R.bad("HX2", "HX2/%s/reads-representation" % label, bb.where(s),
                  "%s looks at the representation (%s) instead of going through bytes()/len(): its answer can differ between "
                  "the inline and the heap form of the same byte string" % (label, w))
        else:
            # it must go through bytes()/len()/print() (or another encapsulated accessor)
            uses = False
            for bb in bodies:
                for site, t in bb.calls():
                    c = t["callee"]
                    if c.get("local") and c.get("name") in ("bytes", "len", "print", "is_empty", "to_vec") and "Hex" in c.get("path", ""):
                        uses = True
                    # delegation to another encapsulated view of the same value (Debug -> Display, eq -> eq of bytes, ...)
                    if c.get("local") and c.get("name") in ("fmt", "eq", "to_string", "cmp", "hash") and \
                            "Hex" in (c.get("path", "") + c.get("gargs", "")) and c.get("path") != bb.path:
                        uses = True
            if uses:
                R.ok("HX2", b.where(), "%s reads the value only through bytes()/len()/print()" % label)
            else:
                R.bad("HX2", "HX2/%s/no-accessor-use" % label, b.where(), "cannot establish HX2: %s uses neither bytes() nor len()" % label)
    R.floor("HX2", "encapsulated Hex accessors", n, 12)
    # PartialEq is the hand-written bytes comparison
    pe = [i for i in F.impls if i["self_adt"] == "Hex" and i["trait"] == "std::cmp::PartialEq"]
    if not pe:
        R.missing("HX2", "PartialEq for Hex")
    elif pe[0]["derived"]:
        R.bad("HX2", "HX2/Hex/PartialEq-derived", pe[0]["span"],
              "PartialEq for Hex is derived: an inline and a heap Hex holding the same bytes compare unequal, and padding takes part")
    else:
        eq = F.fn("Hex", "eq", "std::cmp::PartialEq")
        ok = False
        if eq is not None:
            for site, t in eq.calls():
                c = t["callee"]
                if c.get("decl") in ("std::cmp::PartialEq::eq",) and not c.get("local"):
                    args = [strip_load(deref_addr(eq, a)) for a in eq.call_args(t, site)]
                    if len(args) == 2 and all(a[0] == "call" and a[1].endswith("::bytes") for a in args) and \
                            {strip_load(args[0][2][0]), strip_load(args[1][2][0])} == {("param", 1), ("param", 2)}:
                        ok = True
        if ok:
            R.ok("HX2", eq.where(), "Hex equality is equality of bytes() of both operands")
        else:
            R.bad("HX2", "HX2/Hex::eq/not-bytes-comparison", eq.where() if eq else "(hex)", "Hex equality is not the comparison of bytes() of both operands")


# ---------------------------------------------------------------- HX3
def hx3(F, R):
    b = F.fn("Hex", "bytes")
    ln = F.fn("Hex", "len")
    if b is None or ln is None:
        R.missing("HX3", "Hex::bytes / Hex::len")
        return
    R.analysed(b, sum(1 for _ in b.sites()))
    R.analysed(ln, sum(1 for _ in ln.sites()))
    accs = [(s, base, idx, how) for (s, base, idx, how) in index_accesses(b) if is_inline_array(base)]
    if not accs:
        R.bad("HX3", "HX3/Hex::bytes/inline-arm-missing", b.where(), "cannot establish HX3: bytes() does not slice the inline array")
    for site, base, idx, how in accs:
        h = hex_of(base)
        i = strip_load(idx)
        ok = (i[0] == "agg" and i[1] == "RangeTo" and is_inline_len(dict(i[3])["end"], h)) or \
             (i[0] == "agg" and i[1] == "Range" and strip_load(dict(i[3])["start"]) == ("const", 0) and is_inline_len(dict(i[3])["end"], h))
        if ok and h == ("param", 1):
            R.ok("HX3", b.where(site), "bytes(): inline arm is the array cut to exactly the length field")
        else:
            R.bad("HX3", "HX3/Hex::bytes/inline-view-not-cut-at-len", b.where(site),
                  "bytes() of an inline Hex is not array[..len]: padding is exposed or bytes are lost",
                  {"access": "%s[%s]" % (show(base, b), show(idx, b))})
    # bytes() and len() are total on every value of the type: both variants are public, so a heap form of 8 bytes or fewer is a legal
    # value.  The only assertion that changes nothing is "length field <= 8" of the inline form: the slicing that follows panics
    # on exactly the other values.
    for fn in (b, ln):
        for f, bi in fn.compiled_assertions():
            if f[0] == "bool" and strip_load(f[1])[0] == "ovf":
                continue
            if f[0] == "in" and f[2] <= frozenset(range(0, HEX_SIZE + 1)) and frozenset(range(0, HEX_SIZE + 1)) <= f[2] and is_inline_len(f[1], ("param", 1)):
                continue
            R.bad("HX3", "HX3/Hex::%s/may-panic" % fn.name, fn.where((bi, 0)),
                  "%s() asserts %s: it panics on a legal value of the type (e.g. a hand-built heap form of 8 bytes or fewer), and with it "
                  "every accessor built on it" % (fn.name, show(f, fn)[:140]))
    # whole array as a slice anywhere in bytes()
    for site, kind, s in b.sites():
        if kind == "stmt" and s["k"] == "assign" and s["rv"]["k"] == "cast" and "Unsize" in s["rv"]["kind"]:
            e = b.expr_rvalue(s["rv"], site)
            if is_inline_array(e[2]):
                R.bad("HX3", "HX3/Hex::bytes/whole-inline-array", b.where(site), "bytes() returns the whole 8-byte array of an inline Hex")
    # len(): returns the length field / the Vec's length
    rets = []
    for r in ln.returns:
        rets.append(ln.expr_local(0, (r, ln.term_idx(r))))
    flat = []
    for e in rets:
        e = strip_load(e)
        flat += list(e[1]) if e[0] == "phi" else [e]
    inline_ok = any(is_inline_len(e, ("param", 1)) for e in flat)
    vec_ok = any(strip_load(e)[0] == "call" and strip_load(e)[1].split("::")[-1] == "len" and
                 mentions(e, lambda x: x[0] == "vfield" and x[2] == "Vector") for e in flat)
    if inline_ok and vec_ok and len(flat) == 2:
        R.ok("HX3", ln.where(), "len(): the inline length field / the Vec's length")
    else:
        R.bad("HX3", "HX3/Hex::len/not-the-stored-length", ln.where(), "len() does not return the stored length of each representation",
              {"returns": [show(e, ln) for e in flat]})


# ---------------------------------------------------------------- HX4
def hx4(F, R):
    froms = [b for b in F.all_bodies() if b.self_adt == "Hex" and b.trait == "std::convert::From" and b.name == "from"]
    n = 0
    for b in froms:
        m = re.search(r"From<(\w+)>", b.trait_ref or "")
        ty = m.group(1) if m else "?"
        if ty not in ("i64", "f64"):
            # C15 states the inverse pair for i64 and f64 only (to_i64 / to_f64); the byte order of the narrower conversions has
            # no reader to agree with, and for i8 both orders are the same byte
            continue
        names = [t["callee"].get("name") for _, t in b.calls()]
        R.analysed(b, len(names))
        n += 1
        # every value the conversion returns is from_slice(d.to_be_bytes()): a second result (a "fast path") is accepted only as the
        # all-zero 8-byte inline value under a test that the *bits* of d are zero (`d == 0` for an integer, `d.to_bits() == 0` for a
        # float; `d == 0.0` is also true for -0.0, whose bits are not zero)
        for dd in b.defs().get(0, []):
            site = (dd[0], dd[1])
            try:
                v = strip_load(b.expr_rvalue(dd[3], site) if dd[2] == "assign" else b.expr_call(dd[3], site))
            except Exception:
                continue
            if v[0] != "agg" or v[1] != "Hex":
                continue
            fs = dict(v[3]) if len(v) > 3 else {}
            arr, ln2 = strip_load(fs.get("0", ("?",))), strip_load(fs.get("1", ("?",)))
            zero_arr = (arr[0] == "repeat" and strip_load(arr[1]) == ("const", 0)) or (arr[0] == "array" and all(strip_load(x) == ("const", 0) for x in arr[1])) \
                or (arr[0] in ("constx", "const") and "BLANK" in repr(arr))
            zero_bits = False
            for f in b.facts_at(site):
                if f[0] == "in" and f[2] == frozenset([0]):
                    subj = strip_load(f[1])
                    if ty == "i64" and subj == ("param", 1):
                        zero_bits = True
                    if subj[0] == "call" and subj[1].split("::")[-1] == "to_bits" and strip_load(subj[2][0]) == ("param", 1):
                        zero_bits = True
            if v[2] == "Bytes" and zero_arr and ln2 == ("const", 8) and zero_bits:
                R.ok("HX4", b.where(site), "From<%s>: zero fast path, bit-identical to the big-endian bytes of zero" % ty)
            else:
                R.bad("HX4", "HX4/Hex::from<%s>/other-result" % ty, b.where(site),
                      "From<%s> has a result that is not from_slice(d.to_be_bytes()) (%s): to_%s(from(d)) is not d for every d "
                      "(e.g. -0.0 == 0.0)" % (ty, show(v, b)[:100], ty))
        if "to_be_bytes" in names and not any(x in names for x in ("to_le_bytes", "to_ne_bytes")):
            # and the bytes go to from_slice unchanged
            ok = False
            for site, t in b.calls():
                if t["callee"].get("name") in ("from_slice", "from_vec"):
                    a = strip_load(deref_addr(b, b.call_args(t, site)[0]))
                    if mentions(a, lambda x: x[0] == "call" and x[1].endswith("to_be_bytes") and strip_load(x[2][0]) == ("param", 1)):
                        ok = True
            if ok:
                R.ok("HX4", b.where(), "From<%s>: big-endian bytes of the value, unchanged" % ty)
            else:
                R.bad("HX4", "HX4/Hex::from<%s>/bytes-altered" % ty, b.where(), "From<%s> does not store exactly the value's to_be_bytes()" % ty)
        else:
            R.bad("HX4", "HX4/Hex::from<%s>/endianness" % ty, b.where(),
                  "From<%s> does not use big-endian encoding (calls: %s) while to_i64/to_f64 decode big-endian: the conversions "
                  "are not inverses" % (ty, [x for x in names if x and "bytes" in x]))
    R.floor("HX4", "From<i64> / From<f64> for Hex", n, 2)
    for name, ty in (("to_i64", "i64"), ("to_f64", "f64")):
        b = F.fn("Hex", name)
        if b is None:
            R.missing("HX4", "Hex::" + name)
            continue
        calls = list(b.calls())
        R.analysed(b, len(calls))
        dec = [(s, t) for s, t in calls if t["callee"].get("name") in ("from_be_bytes", "from_le_bytes", "from_ne_bytes")]
        if not dec or any(t["callee"]["name"] != "from_be_bytes" for _, t in dec):
            R.bad("HX4", "HX4/Hex::%s/endianness" % name, b.where(), "%s does not decode big-endian" % name)
            continue
        for site, t in dec:
            if ("<impl %s>" % ty) not in t["callee"].get("path", ""):
                R.bad("HX4", "HX4/Hex::%s/decoded-type" % name, b.where(site), "%s decodes as %s" % (name, t["callee"].get("path")))
                continue
            a = strip_load(deref_addr(b, b.call_args(t, site)[0]))
            facts = b.facts_at(site)
            via = [x for x in walk(a) if x[0] == "call" and x[1].split("::")[-1] in ("try_into", "try_from")]
            whole = via and strip_load(via[0][2][0])[0] == "call" and strip_load(via[0][2][0])[1].endswith("::bytes") and \
                strip_load(strip_load(via[0][2][0])[2][0]) == ("param", 1)
            prop = any(f[0] == "in" and f[2] <= frozenset(["Continue", "Ok"]) and
                       mentions(f[1], lambda x: x[0] == "call" and x[1].split("::")[-1] in ("try_into", "try_from")) for f in facts)
            if whole and prop:
                R.ok("HX4", b.where(site), "%s: %s::from_be_bytes of bytes() converted to [u8; 8] (fails for any other length), error propagated" % (name, ty))
            elif not whole:
                R.bad("HX4", "HX4/Hex::%s/not-whole-bytes" % name, b.where(site),
                      "%s does not decode exactly the whole byte string through a [u8; 8] conversion: a Hex of another length is "
                      "accepted or bytes are skipped" % name, {"arg": show(a, b)})
            else:
                R.bad("HX4", "HX4/Hex::%s/length-error-not-propagated" % name, b.where(site),
                      "the failure of the [u8; 8] conversion is not propagated as Err")


# ---------------------------------------------------------------- HX6
def hx6(F, R):
    """Display and Debug of Hex write exactly print(): the text other modules embed (`{}` in the DOT export, in Debug of the
    graph, in inspect) is the whole dash-separated byte string, not an abbreviation of it"""
    n = 0
    for tr in ("std::fmt::Display", "std::fmt::Debug"):
        b = F.fn("Hex", "fmt", tr)
        label = "Hex::fmt(%s)" % tr.split("::")[-1]
        if b is None:
            R.missing("HX6", label)
            continue
        raw = Collector(F, stop_names=("print", "bytes", "len")).collect(b)
        R.analysed(b, len(raw))
        writes = [e for e in raw if e.kind == "call" and e.args and strip_load(e.args[0]) == ("param", 2) and not e.exp]
        ok = False
        if len(writes) == 1 and writes[0].name in ("write_str", "pad") and len(writes[0].args) == 2:
            a = strip_load(writes[0].args[1])
            for _ in range(4):
                if a[0] == "call" and a[1].split("::")[-1] in ("as_str", "deref", "as_ref", "borrow") and a[2]:
                    a = strip_load(a[2][0])
            ok = a[0] == "call" and a[1].endswith("::print") and "Hex" in a[1] and strip_load(a[2][0]) == ("param", 1) and \
                writes[0].uncond and not writes[0].conditions()
        # or: delegation to the other formatting trait of Hex
        deleg = [e for e in raw if e.kind == "call" and e.name == "fmt" and "Hex" in (e.callee.get("gargs", "") + e.path) and
                 e.args and strip_load(e.args[0]) == ("param", 1)]
        n += 1
        if ok or (len(deleg) == 1 and len(writes) <= 1 and deleg[0].uncond):
            R.ok("HX6", b.where(), "%s writes exactly self.print()" % label)
        else:
            R.bad("HX6", "HX6/%s/not-exactly-print" % label, b.where(),
                  "%s does not write exactly the text of print(): the form of the bytes that other modules embed (`{}`) is cut, "
                  "decorated or conditional" % label,
                  {"writes": [(e.name, show(e.args[1], b)[:120] if len(e.args) > 1 else None) for e in writes]})
    R.floor("HX6", "formatting impls of Hex", n, 2)


# ---------------------------------------------------------------- HX5
def hx5(F, R):
    b = F.fn("Hex", "from_slice")
    if b is None:
        R.missing("HX5", "Hex::from_slice")
        return
    R.analysed(b, sum(1 for _ in b.sites()))
    sl = ("param", 1)

    def is_len_of_slice(e):
        c = strip_load(e)
        return c[0] == "call" and c[1].split("::")[-1] == "len" and c[2] and strip_load(c[2][0]) == sl
    small = frozenset(range(0, HEX_SIZE + 1))
    for site, kind, s in b.sites():
        if kind == "stmt" and s["k"] == "assign" and s["rv"]["k"] == "aggregate" and s["rv"].get("adt") == "Hex":
            e = b.expr_rvalue(s["rv"], site)
            facts = b.facts_at(site)
            detail = {"guards": [show(f, b) for f in sorted(facts, key=repr)]}
            if e[2] == "Bytes":
                g = [f for f in facts if f[0] == "in" and is_len_of_slice(f[1])]
                if not g or not all(f[2] <= small for f in g):
                    R.bad("HX5", "HX5/Hex::from_slice/inline-form-not-limited-to-8", b.where(site),
                          "the inline form is chosen for a slice that may be longer than 8 bytes (the copy then panics or bytes are lost)", detail)
                else:
                    # a lower threshold only moves short byte strings to the heap form, which every accessor treats alike
                    fs = dict(e[3])
                    if not is_len_of_slice(fs["1"]):
                        R.bad("HX5", "HX5/Hex::from_slice/recorded-length", b.where(site),
                              "the length recorded for the inline form is not the slice's length", {"len": show(fs["1"], b)})
                    else:
                        R.ok("HX5", b.where(site), "inline form iff len ≤ 8, recorded length = slice.len()", detail)
            elif e[2] == "Vector":
                fs = dict(e[3])
                v = strip_load(fs["0"])
                if not (v[0] == "call" and v[1].split("::")[-1] in ("to_vec", "to_owned", "from", "into") and strip_load(v[2][0]) == sl):
                    R.bad("HX5", "HX5/Hex::from_slice/heap-copy", b.where(site), "the heap form does not hold a copy of exactly the slice", {"vec": show(v, b)})
                else:
                    R.ok("HX5", b.where(site), "heap form holds slice.to_vec()", detail)
    # the copy into the array
    copies = [(s, t) for s, t in b.calls() if t["callee"].get("name") in ("copy_from_slice", "clone_from_slice")]
    if not copies:
        R.bad("HX5", "HX5/Hex::from_slice/copy-missing", b.where(), "cannot establish HX5: no copy of the slice into the inline array found")
    for site, t in copies:
        args = [deref_addr(b, a) for a in b.call_args(t, site)]
        dst, src = strip_load(args[0]), strip_load(args[1])
        ok = dst[0] == "slice" and strip_load(dst[2])[0] == "agg" and strip_load(dst[2])[1] == "RangeTo" and \
            is_len_of_slice(dict(strip_load(dst[2])[3])["end"]) and src == sl
        if ok:
            R.ok("HX5", b.where(site), "array[..slice.len()] := slice (exactly slice.len() bytes copied, from offset 0)")
        else:
            R.bad("HX5", "HX5/Hex::from_slice/copy-shape", b.where(site), "the bytes copied into the inline array are not exactly the slice at offset 0",
                  {"dst": show(dst, b), "src": show(src, b)})
    # from_vec agrees on the threshold
    fv = F.fn("Hex", "from_vec")
    if fv is not None:
        R.analysed(fv, sum(1 for _ in fv.sites()))
        for site, kind, s in fv.sites():
            if kind == "stmt" and s["k"] == "assign" and s["rv"]["k"] == "aggregate" and s["rv"].get("adt") == "Hex":
                e = fv.expr_rvalue(s["rv"], site)
                if e[2] == "Vector":
                    fs = dict(e[3])
                    if strip_load(fs["0"]) != ("param", 1):
                        R.bad("HX5", "HX5/Hex::from_vec/heap-form-not-the-vec", fv.where(site), "from_vec's heap form does not hold the given vector")
                    else:
                        R.ok("HX5", fv.where(site), "from_vec: heap form holds the given vector")
                else:
                    R.bad("HX5", "HX5/Hex::from_vec/builds-inline-itself", fv.where(site), "from_vec builds the inline form itself instead of delegating to from_slice")


# ---------------------------------------------------------------- C16
APPENDERS = {"extend_from_slice": 1, "copy_from_slice": 1, "clone_from_slice": 1, "extend": 1, "append": 1, "push": 1,
             "extend_from_within": 1, "insert": 2, "write": 1, "write_all": 1}


def byte_source_class(e, body):
    c = strip_load(e)
    if c[0] == "call" and c[1].endswith("::bytes") and "Hex" in c[1]:
        return ("bytes()", strip_load(c[2][0]))
    if c[0] == "cast" and c[1] == "Unsize" and is_inline_array(c[2]):
        return ("whole-inline-array", hex_of(c[2]))
    if is_inline_array(c):
        return ("whole-inline-array", hex_of(c))
    if c[0] == "slice" and is_inline_array(c[1]):
        r = strip_load(c[2])
        h = hex_of(c[1])
        if r[0] == "agg" and r[1] == "RangeFull":
            return ("whole-inline-array", h)
        if r[0] == "agg" and r[1] in ("RangeTo", "Range") and is_inline_len(dict(r[3])["end"], h) and \
                (r[1] == "RangeTo" or strip_load(dict(r[3])["start"]) == ("const", 0)):
            return ("inline-array[..len]", h)
        return ("inline-array-slice-not-len", h)
    if c[0] == "vfield" and c[2] == "Vector":
        return ("heap-vec", strip_load(c[1]))
    if c[0] == "call" and c[1].split("::")[-1] in ("clone", "to_vec", "to_owned") and c[2]:
        return byte_source_class(c[2][0], body)
    if c[0] == "call" and c[1].split("::")[-1] in ("deref", "as_slice", "iter", "as_ref") and c[2]:
        return byte_source_class(c[2][0], body)
    if c[0] == "iter":
        return byte_source_class(c[1], body)
    if c[0] == "adapt" and c[1] in ("copied", "cloned"):
        return byte_source_class(c[2], body)
    return ("other", None)


def cc1(F, R):
    b = F.fn("Hex", "concat")
    if b is None:
        R.missing("CC1", "Hex::concat")
        return
    col = Collector(F, stop_names=("bytes", "len", "from_slice", "from_vec"))
    raw = col.collect(b)
    R.analysed(b, len(raw))
    n = 0
    for e in raw:
        if e.kind != "call" or e.name not in APPENDERS or len(e.args) < 2:
            continue
        src = e.args[APPENDERS[e.name]]
        n += 1
        parts = literal_parts(src)
        if parts is not None:
            # `for part in [x, y] { v.extend(part) }`: every element of the literal list is appended
            for px in parts:
                report_source(R, e, px)
            continue
        report_source(R, e, src)
    R.floor("CC1", "append sites in concat()", n, 1, b.where())


def literal_parts(src):
    """byte source that is the item of an iteration over a literal array `[x, y, ..]` -> the elements, in order"""
    c = strip_load(src)
    for _ in range(6):
        if c[0] == "adapt" and c[1] in ("copied", "cloned"):
            c = strip_load(c[2])
        elif c[0] == "iter" and strip_load(c[1])[0] != "array":
            c = strip_load(c[1])
        elif c[0] == "call" and c[1].split("::")[-1] in ("iter", "deref", "as_slice", "as_ref", "to_vec", "clone") and c[2]:
            c = strip_load(c[2][0])
        else:
            break
    if c[0] == "item":
        it = strip_load(c[1])
        if it[0] == "iter":
            arr = strip_load(it[1])
            for _ in range(3):
                if arr[0] == "cast":
                    arr = strip_load(arr[2])
            if arr[0] == "array":
                return list(arr[1])
    return None


def report_source(R, e, src):
    if True:
        cls, who = byte_source_class(src, e.body)
        sink = short_path(e.path).replace("<T, A>", "").replace("<impl [T]>", "slice")
        if cls == "whole-inline-array":
            opnd = {("param", 1): "receiver", ("param", 2): "argument"}.get(who, "other")
            R.bad("CC1", "CC1/Hex::concat/whole-inline-array-appended/operand=%s/into=%s" % (opnd, "heap" if "Vec" in e.path else "inline"), e.where(),
                  "all 8 bytes of an inline operand's array are appended, not only its first len bytes: the result contains the "
                  "operand's padding (e.g. [01,02].concat(9 bytes) = 01-02-00-00-00-00-00-00-…)",
                  {"source": show(src, e.body), "guards": [show(f, e.body) for f in sorted(e.facts, key=repr)]})
        elif cls in ("bytes()", "inline-array[..len]", "heap-vec"):
            R.ok("CC1", e.where(), "appended bytes come from %s of %s" % (cls, show(who, e.body) if who else "?"))
        else:
            R.bad("CC1", "CC1/Hex::concat/byte-source=%s" % cls, e.where(),
                  "cannot establish CC1: bytes appended to the result come from an unrecognised source",
                  {"source": show(src, e.body)})


def cc2(F, R):
    """left bytes precede right bytes; recorded inline length is l + h.len()"""
    b = F.fn("Hex", "concat")
    if b is None:
        R.missing("CC2", "Hex::concat")
        return
    col = Collector(F, stop_names=("bytes", "len", "from_slice", "from_vec"))
    raw = col.collect(b)
    left, right = ("param", 1), ("param", 2)

    def side(e):
        m1 = mentions(e, lambda x: x == left)
        m2 = mentions(e, lambda x: x == right)
        return "left" if m1 and not m2 else "right" if m2 and not m1 else "both" if m1 and m2 else "none"
    results = []
    for site, kind, s in b.sites():
        if kind == "stmt" and s["k"] == "assign" and s["rv"]["k"] == "aggregate" and s["rv"].get("adt") == "Hex":
            results.append((site, b.expr_rvalue(s["rv"], site)))
    # results built through the constructors: from_vec(v) / from_slice(v)
    for site, t in b.calls():
        if t["callee"].get("local") and t["callee"].get("name") in ("from_vec", "from_slice") and "Hex" in t["callee"].get("path", ""):
            a = strip_load(deref_addr(b, b.call_args(t, site)[0]))
            results.append((site, ("agg", "Hex", "Vector", (("0", a),))))
    R.floor("CC2", "result constructions in concat()", len(results), 1, b.where())
    # every value concat() returns is one of those constructions — or a copy of one operand where the other is known to be empty
    def returned(e, site, depth=0):
        c = strip_load(e)
        if c[0] == "phi" and depth < 4:
            for a in c[1]:
                returned(a, site, depth + 1)
            return
        if c[0] == "agg" and c[1] == "Hex":
            return
        if c[0] == "call" and c[1].split("::")[-1] in ("from_vec", "from_slice") and "Hex" in c[1]:
            return
        if c[0] == "call" and c[1].split("::")[-1] in ("clone", "to_owned") and c[2] and strip_load(c[2][0]) in (left, right):
            other = right if strip_load(c[2][0]) == left else left
            facts = b.facts_at(site)
            empty = False
            for f in facts:
                if f[0] == "in" and f[2] == frozenset([0]):
                    x = strip_load(f[1])
                    if (x[0] == "call" and x[1].split("::")[-1] == "len" and "Hex" in x[1] and strip_load(x[2][0]) == other) or \
                            is_inline_len(x, other):
                        empty = True
                if f[0] == "bool" and f[2] is True:
                    x = strip_load(f[1])
                    if x[0] == "call" and x[1].split("::")[-1] == "is_empty" and "Hex" in x[1] and strip_load(x[2][0]) == other:
                        empty = True
            if empty:
                R.ok("CC2", b.where(site), "returns a copy of one operand where the other is known to be empty")
                return
            R.bad("CC2", "CC2/Hex::concat/returns-one-operand-alone", b.where(site),
                  "concat() returns a copy of one operand on a path where the other operand is not known to have length 0: "
                  "the other operand's bytes are lost", {"guards": [show(f, b) for f in sorted(facts, key=repr)]})
            return
        R.bad("CC2", "CC2/Hex::concat/result-not-a-recognised-construction", b.where(site),
              "concat() returns a value that is not built from both operands by one of the recognised constructions",
              {"value": show(c, b)[:300]})
    for d in b.defs().get(0, []):
        dsite = (d[0], d[1])
        returned(b.expr_rvalue(d[3], dsite) if d[2] == "assign" else b.expr_call(d[3], dsite), dsite)

    def content_sides(vec, site):
        """sequence of operand sides making up a byte vector value: initial content, then appends in dominance order"""
        seq = []
        v = strip_load(vec)
        for _ in range(3):
            if v[0] == "call" and v[1].split("::")[-1] in ("deref", "as_slice", "into_vec", "into_boxed_slice") and v[2]:
                v = strip_load(v[2][0])
        if v[0] == "call" and v[1].split("::")[-1] in ("clone", "to_vec", "to_owned") and v[2]:
            seq.append(("init", side(v), None))
        elif v[0] == "call" and v[1].split("::")[-1] in ("concat",) and v[2]:
            arr = strip_load(v[2][0])
            for _ in range(3):
                if arr[0] == "cast":
                    arr = strip_load(arr[2])
            if arr[0] == "array":
                for x in arr[1]:
                    seq.append(("part", side(x), None))
            else:
                seq.append(("init", "unknown", None))
        elif v[0] == "call" and v[1].split("::")[-1] in ("new", "with_capacity"):
            pass
        else:
            seq.append(("init", "unknown:" + show(v, b)[:60], None))
        here = b.facts_at(site)
        apps = []
        arms = {}
        for a in raw:
            if not (a.kind == "call" and a.name in ("extend_from_slice", "extend", "append", "push", "extend_from_within", "insert", "resize",
                                                    "truncate", "clear", "pop", "remove", "drain", "retain") and
                    a.args and strip_sites(strip_load(a.args[0])) == strip_sites(v)):
                continue
            if a.body is b and b.dominates(a.site, site):
                apps.append((a.site, a))
                continue
            un = a.d.get("unrolled")
            if un is not None and a.body is b and isinstance(un[0], int) and b.dominates((un[0], 0), site) and un[3]:
                # one of the copies of `for part in [x, y] { v.extend(part) }`: ordered by the element's position
                apps.append(((un[0], un[1]), a))
                continue
            # an append inside a loop that runs to its end before the result is built: unconditional in each iteration
            hdr = None
            for x in walk(a.args[1]) if len(a.args) > 1 else ():
                if x[0] == "item" and isinstance(x[2], int):
                    hdr = x[2]
            own = [f for f in a.facts if f not in here and not (f[0] == "in" and f[2] == frozenset(["Some"]) and strip_load(f[1])[0] == "discr" and
                                                             strip_load(strip_load(f[1])[1])[0] == "next")]
            if a.body is b and hdr is not None and b.dominates((hdr, 0), site) and not own:
                apps.append(((hdr, 0), a))
            elif a.body is b and b.reaches(a.site, site) and len(own) == 1 and own[0][0] == "in" and strip_load(own[0][1])[0] == "discr" and \
                    len(own[0][2]) == 1 and own[0][2] <= frozenset(["Vector", "Bytes"]) and a.name in ("extend_from_slice", "extend"):
                arms.setdefault(strip_sites(strip_load(own[0][1])), []).append((next(iter(own[0][2])), a))
            elif a.body is not b or b.reaches(a.site, site):
                seq.append(("conditional-" + a.name, "unknown", a))
        # one append per representation of the same operand (`match h { Vector(v) => extend(v), Bytes(a, l) => extend(&a[..*l]) }`):
        # exactly one of them runs; together they are one append, placed where the arms split
        d = b.dom()
        for subj, lst in arms.items():
            vs = sorted(v for v, _ in lst)
            sds = {side(a.args[1]) for _, a in lst}
            common = None
            for _, a in lst:
                ds = set(d.get(a.site[0], ()))
                common = ds if common is None else (common & ds)
            common = [x for x in (common or ()) if all(x != a.site[0] for _, a in lst)]
            split = None
            for x in common:
                if all(x in d.get(y, ()) or x == y for y in common if True) and all(y in d.get(x, ()) for y in common):
                    split = x
            if split is None and common:
                split = max(common, key=lambda x: len(d.get(x, ())))
            if vs == ["Bytes", "Vector"] and len(sds) == 1 and split is not None and b.dominates((split, 0), site):
                apps.append(((split, len(b.blocks[split]["stmts"])), lst[0][1]))
            else:
                for _, a in lst:
                    seq.append(("conditional-" + a.name, "unknown", a))
        def before(o, x):
            if o[0][0] == x[0][0] and (o[1].d.get("unrolled") or x[1].d.get("unrolled")):
                return o[0][1] < x[0][1]
            return o[0] != x[0] and b.dominates((o[0][0], 0 if o[1].d.get("unrolled") else o[0][1]), (x[0][0], 0 if x[1].d.get("unrolled") else x[0][1]))
        apps.sort(key=lambda sa: sum(1 for o in apps if o is not sa and before(o, sa)))
        for _, a in apps:
            if a.name not in ("extend_from_slice", "extend", "append", "push"):
                seq.append((a.name, "unknown", a))
                continue
            parts = literal_parts(a.args[1])
            if parts is not None:
                for px in parts:
                    seq.append(("append", side(px), a))
            elif a.name == "push" or any(x[0] == "item" for x in walk(a.args[1])):
                # one element per iteration: fine if the loop walks a whole operand; sides only
                seq.append(("append-each", side(a.args[1]), a))
            else:
                seq.append(("append", side(a.args[1]), a))
        return seq
    for site, e in results:
        fs = dict(e[3])
        if e[2] == "Vector":
            seq = content_sides(fs["0"], site)
            sides = [x[1] for x in seq]
            if sides == ["left", "right"]:
                R.ok("CC2", b.where(site), "heap result = left bytes then right bytes (%s)" % " → ".join(x[0] + ":" + x[1] for x in seq))
            else:
                R.bad("CC2", "CC2/Hex::concat/heap-result-order", b.where(site),
                      "the heap result is not 'left operand's bytes, then right operand's bytes, each once': %s" % sides)
        elif e[2] == "Bytes":
            ln = strip_load(fs["1"])
            okl = ln[0] in ("binop", "call") and side(ln) == "both" and \
                ((ln[0] == "binop" and ln[1] == "Add") or ln[1].endswith("::add"))
            parts = [strip_load(x) for x in (ln[2:4] if ln[0] == "binop" else ln[2])] if okl else []
            okl = okl and any(is_inline_len(p, left) for p in parts) and \
                any(p[0] == "call" and p[1].endswith("::len") and
                    (strip_load(p[2][0]) == right or
                     # len of the right operand's byte view: `h.bytes().len()`
                     (strip_load(p[2][0])[0] == "call" and strip_load(p[2][0])[1].split("::")[-1] == "bytes" and "Hex" in strip_load(p[2][0])[1] and
                      strip_load(strip_load(p[2][0])[2][0]) == right))
                    for p in parts)
            arr = strip_load(fs["0"])
            # the array starts as a copy of the left array and receives the right bytes at [l .. l + len(h)]
            cps = [a for a in raw if a.kind == "call" and a.name in ("copy_from_slice", "clone_from_slice") and a.body is b and b.dominates(a.site, site)]
            okc = False
            for a in cps:
                dst = strip_load(a.args[0])
                if dst[0] == "slice":
                    r = strip_load(dst[2])
                    if r[0] == "agg" and r[1] == "Range":
                        st, en = strip_load(dict(r[3])["start"]), strip_load(dict(r[3])["end"])
                        if is_inline_len(st, left) and side(en) == "both" and byte_source_class(a.args[1], b)[0] == "bytes()" and \
                                byte_source_class(a.args[1], b)[1] == right:
                            okc = True
            # the same copy as a loop: for (d, s) in bytes[l..].iter_mut().zip(h.bytes()) { *d = *s }
            for w in raw:
                if w.kind != "write" or w.body is not b:
                    continue
                loc, val = strip_load(w.loc), strip_load(w.val)
                if not (loc[0] == "field" and val[0] == "field" and strip_load(loc[1])[0] == "item" and
                        strip_sites(strip_load(loc[1])) == strip_sites(strip_load(val[1]))):
                    continue
                z = strip_load(strip_load(loc[1])[1])
                if not (z[0] == "adapt" and z[1] == "zip" and len(z[3]) == 1):
                    continue
                sides2 = {"(tuple)::0": strip_load(z[2]), "(tuple)::1": strip_load(z[3][0])}
                d, sfrom = sides2.get(loc[2]), sides2.get(val[2])
                if d is None or sfrom is None or loc[2] == val[2]:
                    continue
                if d[0] == "iter" and d[2] == "iter_mut" and strip_load(d[1])[0] == "slice":
                    sl = strip_load(d[1])
                    r = strip_load(sl[2])
                    if r[0] == "agg" and r[1] in ("RangeFrom", "Range") and is_inline_len(dict(r[3])["start"], left) and \
                            is_inline_array(sl[1]) and hex_of(sl[1]) == left and \
                            byte_source_class(sfrom, b) == ("bytes()", right):
                        hdr = strip_load(loc[1])[2]
                        own = [f for f in w.facts if f not in b.facts_at(site) and not (f[0] == "in" and f[2] == frozenset(["Some"]) and strip_load(f[1])[0] == "discr")]
                        if isinstance(hdr, int) and b.dominates((hdr, 0), site) and not own:
                            okc = True
            oka = is_inline_array(arr) and hex_of(arr) == left
            fit = [f for f in b.facts_at(site) if f[0] == "in" and f[2] <= frozenset(range(0, 9)) and strip_sites(strip_load(f[1])) == strip_sites(ln)]
            if okl and not fit:
                R.bad("CC2", "CC2/Hex::concat/inline-result-unguarded", b.where(site),
                      "the inline result is built without testing that l + len(h) fits the 8-byte array: a longer result panics or is cut",
                      {"guards": [show(f, b) for f in b.facts_at(site)]})
                continue
            if okl and okc and oka:
                R.ok("CC2", b.where(site), "inline result = left array with right bytes copied to [l .. l+len(h)], length l + len(h)")
            else:
                R.bad("CC2", "CC2/Hex::concat/inline-result-shape", b.where(site),
                      "the inline result is not the left array with the right operand's bytes placed right after the left "
                      "operand's len bytes and length l + len(h)", {"len_ok": okl, "copy_ok": okc, "array_ok": oka, "len": show(ln, b)})


def cc4(F, R):
    """concat() is total on byte strings: it contains no subtraction on lengths that can fail.  (`l + len(h)` cannot overflow for
    vectors that fit in memory; `end - 1`, `total - l` can, for empty or short operands — a panic in a debug build where the byte
    strings simply concatenate.)"""
    b = F.fn("Hex", "concat")
    if b is None:
        R.missing("CC4", "Hex::concat")
        return
    R.analysed(b)
    n = 0
    for bi in sorted(b.reachable):
        t = b.blocks[bi]["term"]
        if t and t["k"] == "assert" and not t.get("exp"):
            n += 1
            if str(t.get("kind", "")).startswith("overflow:Sub"):
                R.bad("CC4", "CC4/Hex::concat/length-subtraction-may-underflow", b.where((bi, b.term_idx(bi))),
                      "concat() subtracts lengths with a checked subtraction: for empty or short operands the subtraction underflows and "
                      "the call panics (debug build) instead of returning the concatenation")
    R.ok("CC4", b.where(), "concat(): %d compiler-inserted checks examined, no subtraction on lengths" % n)


def cc3(F, R):
    b = F.fn("Hex", "concat")
    if b is None:
        R.missing("CC3", "Hex::concat")
        return
    tys = [b.locals[i]["ty"] for i in range(1, b.arg_count + 1)]
    if tys == ["&Hex", "&Hex"]:
        R.ok("CC3", b.where(), "both operands are shared references")
    else:
        R.bad("CC3", "CC3/Hex::concat/operand-not-shared-ref", b.where(), "an operand of concat() is not taken by shared reference: %s" % tys)
    hexadt = F.adts.get("Hex")
    parts = [p for v in hexadt["variants"] for f in v["fields"] for p in f["ty_parts"]] if hexadt else ["?"]
    badp = [p for p in parts if any(x in p for x in ("Cell", "RefCell", "Mutex", "RwLock", "Atomic", "rawptr", "UnsafeCell", "Rc", "Arc"))]
    if badp:
        R.bad("CC3", "CC3/Hex/interior-mutability", "(lib)", "Hex contains interior-mutable or shared parts: %s" % badp)
    else:
        R.ok("CC3", "(lib)", "Hex has no interior mutability: a shared reference cannot change it")
    # a `&Hex` to a type without interior mutability can only be written through with unsafe code
    f0 = b.span.rsplit(":", 1)[0]
    us = [u for u in F.unsafe if u["user"] and not u["from_expansion"] and u["span"].rsplit(":", 1)[0] == f0]
    if us:
        R.bad("CC3", "CC3/Hex::concat/unsafe-in-hex-module", us[0]["span"],
              "user-written unsafe code in the module of concat(): the borrow checker's guarantee that a shared operand is not written no longer covers it")
    else:
        R.ok("CC3", b.where(), "no unsafe code in %s: shared operands cannot be written through" % f0)

"""GC rule pack (DESIGN §5.0): GC1..GC9 over Sodg::{add,bind,put,data} and, for the who-may
rules, over every body of the crate."""
from core import *
from core import _is_constlike
from model import *

MUTATORS = ("add", "bind", "put", "data")


class Ctx:
    pass


_CACHE = {}


def api_names(F):
    return sorted({b.name for b in F.all_bodies()
                   if b.self_adt == "Sodg" and b.vis == "pub" and b.kind == "AssocFn" and not b.trait})


def context(F):
    if id(F) in _CACHE:
        return _CACHE[id(F)]
    c = Ctx()
    c.F = F
    c.api = api_names(F)
    c.mut = {}
    c.ev = {}
    c.raw = {}
    c.lost = []
    for m in MUTATORS:
        b = F.fn("Sodg", m)
        c.mut[m] = b
        if b is not None:
            evs, raw, col = state_events(F, b, stop_names=c.api)
            c.ev[m] = evs
            c.raw[m] = raw
            c.lost += col.lost
    # crate-wide: every non-closure body as a root, no helper inlining (each helper is its own root)
    c.all = []
    c.allraw = []
    for b in F.roots():
        evs, raw, col = state_events(F, b, stop_names=(), depth=0)
        c.all += evs
        c.allraw += raw
    _CACHE[id(F)] = c
    return c


def need_mutators(c, R, rule, names=MUTATORS):
    ok = True
    for m in names:
        if c.mut.get(m) is None:
            R.missing(rule, "Sodg::%s" % m)
            ok = False
        else:
            R.analysed(c.mut[m], len(c.raw[m]))
    for (b, site, p) in c.lost:
        R.bad(rule, "%s/%s/inline-bound" % (rule, fn_key(b)), b.where(site),
              "cannot establish %s: helper nesting deeper than %d below %s (%s); failing closed"
              % (rule, INLINE_DEPTH, fn_key(b), p))
        ok = False
    return ok


# ---------------------------------------------------------------- value classification
def tag_value_class(val):
    """what a value written to a group tag denotes"""
    core = strip_load(val)
    if core[0] == "phi":
        out = set()
        for x in core[1]:
            out |= tag_value_class(x)
        return out
    if core[0] == "const":
        if core[1] == 0:
            return {"none"}
        if core[1] == 1:
            return {"static"}
        return {"const:%s" % core[1]}
    if core[0] == "field" and core[2] == "(tuple)::0":
        it = strip_load(core[1])
        if it[0] == "item":
            src = iter_source(it[1])
            if src is not None and strip_load(src)[0] == "field" and strip_load(src)[2] == "Sodg::branches":
                return {"slot-key"}
    if core[0] == "field" and core[2] == "Vertex::branch":
        return {"tag-of"}
    return {"unknown"}


def is_empty_hex(val):
    core = strip_load(val)
    if core[0] == "call" and core[1].endswith("::empty") and "Hex" in core[1]:
        return True
    if core[0] == "agg" and core[1] == "Hex" and core[2] == "Bytes":
        fs = dict(core[3])
        return strip_load(fs.get("1", ("?",))) == ("const", 0)
    return False


def is_new_edges(val):
    core = strip_load(val)
    return core[0] == "call" and ("micromap" in core[1]) and core[1].split("::")[-1] in ("new", "default")


def variant_of(val):
    v = as_variant(val)
    return v[1] if v and v[0] == "Persistence" else None


def vkey(x):
    v = vertex_of(x)
    return v[1] if v else None


def is_param_key(k, body):
    k = strip_load(k) if k is not None else None
    return k is not None and k[0] == "param"


def show_facts(facts, body):
    return [show(f, body) for f in sorted(facts, key=repr)
            if not mentions(f, lambda x: x[0] == "call" and ("log::" in x[1] or "Level" in x[1]))
            and "Level" not in repr(f)]


def pre_state(load_expr, body, tag_writes):
    """the load happens before any tag write of this function can have executed"""
    ls = load_site(load_expr) if load_expr[0] == "load" else None
    if ls is None:
        return True
    for w in tag_writes:
        if w.body is body and body.reaches(w.site, ls):
            return False
    return True


def find_fact_loads(facts, pred):
    return [f for f in facts if f[0] in ("in", "notin") and pred(f[1])]


# ---------------------------------------------------------------- GC0 encapsulation
def gc0(F, R):
    """the GC state cannot be written from outside the crate: fields of Sodg are private, Vertex and Persistence are not exported"""
    sodg = F.adts.get("Sodg")
    if sodg is None:
        R.missing("GC0", "struct Sodg")
        return
    n = 0
    for f in sodg["variants"][0]["fields"]:
        n += 1
        if f["vis"] == "Public":
            R.bad("GC0", "GC0/Sodg::%s/public-field" % f["name"], sodg["span"],
                  "field `%s` of Sodg is public: any user can change group tags, member lists or counters behind the mutators' back" % f["name"])
    for t in ("Vertex", "Persistence"):
        a = F.adts.get(t)
        if a is not None and a["vis"] == "Public":
            # a public type alone is harmless as long as no public API hands out &mut to it; flag public fields only
            for v in a["variants"]:
                for f in v["fields"]:
                    if f["vis"] == "Public" and t == "Vertex":
                        R.bad("GC0", "GC0/Vertex::%s/public-field" % f["name"], a["span"], "field `%s` of an exported Vertex is public" % f["name"])
    # no public method returns a mutable reference into the graph state
    for b in F.all_bodies():
        if b.self_adt == "Sodg" and b.vis == "pub" and b.kind == "AssocFn":
            ret = b.locals[0]["ty"]
            if "&mut" in ret and any(x in ret for x in ("Vertex", "emap::Map", "microstack::Stack", "micromap::Map")):
                R.bad("GC0", "GC0/Sodg::%s/returns-mutable-state" % b.name, b.where(), "public method returns %s: callers can edit the GC state" % ret)
    R.floor("GC0", "fields of Sodg", n, 3)
    R.ok("GC0", sodg["span"], "all %d fields of Sodg are private and no public method hands out &mut into the graph state" % n)


# ---------------------------------------------------------------- GC1 removal sites
def gc1(F, R):
    c = context(F)
    n_tag = 0
    n_slot = 0
    for e in c.all:
        fk = e.fn_key()
        if e.kind == "tag_write":
            n_tag += 1
            cls = tag_value_class(e.val)
            if "none" in cls:
                if fk == "Sodg::data":
                    R.ok("GC1", e.where(), "tag := 0 inside Sodg::data")
                else:
                    R.bad("GC1", "GC1/%s/tag-write-none" % fk, e.where(),
                          "a vertex is made absent (group tag := 0) outside data(): only a first read may remove vertices",
                          {"value": show(e.val, e.body)})
            if "unknown" in cls or any(x.startswith("const:") for x in cls):
                R.bad("GC1", "GC1/%s/tag-write-unclassified" % fk, e.where(),
                      "group tag written with a value that is neither 0, 1, a free slot's key nor another vertex's tag",
                      {"value": show(e.val, e.body)})
        elif e.kind in ("vertex_write", "map_call", "sodg_field_write", "sodg_deep_write"):
            field = e.d.get("field", "Sodg::vertices")
            if e.kind == "vertex_write":
                field = "Sodg::vertices"
            if field != "Sodg::vertices":
                continue
            if fk == "Sodg::empty" and e.kind == "sodg_field_write":
                continue
            if building_a_copy(e, fk):
                continue
            n_slot += 1
            if nontree_exempt_event(c, e):
                R.ok("GC1", e.where(), "whole-slot operation in the non-tree repair path of merge() (scoped exemption)",
                     {"op": e.d.get("op", e.kind)})
            else:
                R.bad("GC1", "GC1/%s/whole-slot-%s" % (fk, e.d.get("op", e.kind)), e.where(),
                      "whole-slot operation on the vertex store outside the constructor and outside merge()'s non-tree repair path",
                      {"op": e.d.get("op", e.kind), "guards": show_facts(e.facts, e.body)})
    R.floor("GC1", "group-tag field writes", n_tag, 3)
    R.note("GC1: %d tag writes, %d whole-slot operations on Sodg::vertices examined over %d bodies"
           % (n_tag, n_slot, len(F.roots())))


def merge_closure(c):
    """paths of the bodies in the call closure of merge() (helpers are inlined; recursive descent and closures remain)"""
    if hasattr(c, "_merge_closure"):
        return c._merge_closure
    F = c.F
    merge = F.fn("Sodg", "merge")
    closure = set()
    st = [merge.path] if merge is not None else []
    while st:
        p = st.pop()
        if p in closure:
            continue
        closure.add(p)
        body = F.bodies.get(p)
        if body is None:
            continue
        for site, t in body.calls():
            cc = t["callee"]
            if cc.get("local") and cc.get("path") in F.bodies and F.bodies[cc["path"]].vis != "pub":
                st.append(cc["path"])
        for cb in F.closures_of(body):
            st.append(cb.path)
        for ip in body.raw.get("inlined", []):
            closure.add(ip)
            for cb in F.all_bodies():
                if cb.kind == "Closure" and cb.parent == ip:
                    st.append(cb.path)
    c._merge_closure = closure
    return closure


def building_a_copy(e, fk):
    """a whole-field write onto a graph value that clone() has just made with the constructor and returns: construction of a new
    graph, not mutation of an existing one (that each field is the source's is CL1's business)"""
    if fk != "Sodg::clone(Clone)" or e.kind != "sodg_field_write":
        return False
    g = strip_load(e.d.get("graph") or ("?",))
    return g[0] == "call" and g[1].split("::")[-1] == "empty" and "Sodg" in g[1]


def nontree_exempt_event(c, e):
    """scoped exemption (DESIGN GC1): the event lies in merge()'s non-tree repair path, i.e. in the call closure of
    merge() and control-dependent on the inequality of a kid() result and an id taken from the right->left table the
    descent carries (whatever container that is).  That inequality needs a right vertex with two parents."""
    root = e.root_body()
    if owner_body(root).path not in merge_closure(c) and root.path not in merge_closure(c):
        return False
    for f in e.facts:
        if f[0] == "cmp" and f[1] == "!=":
            sides = (strip_sites(f[2]), strip_sites(f[3]))
            for x, y in (sides, sides[::-1]):
                has_kid = mentions(x, lambda z: z[0] == "call" and z[1].endswith("::kid"))
                # the other id is looked up in the right->left table the descent carries (a lookup result, not a kid() answer,
                # not a constant, not a plain id parameter)
                has_map = not mentions(y, lambda z: z[0] == "call" and z[1].endswith("::kid")) and \
                    mentions(y, lambda z: z[0] in ("call", "elem")) and not _is_constlike(y)
                if has_kid and has_map and repair_pairs_are_edges_of_the_mapped_vertex(x, y):
                    return True
    return False


def repair_pairs_are_edges_of_the_mapped_vertex(x, y):
    """premise of the exemption: the inequality is `kid(LEFT-GRAPH, L, a) != table[to]` for (a, to) an edge of vertex R of the
    *other* graph, R and L different id parameters of the descent (R is the vertex it has just mapped to L).  Only then does
    "unequal" need a right vertex with two parents; `kids(g, left)` or `kid(g, ..)` would make the repair fire on trees."""
    def collect(e, pred, acc):
        mentions(e, lambda z: acc.append(z) or False if pred(z) else False)
        return acc
    kids_calls = collect(x, lambda z: z[0] == "call" and z[1].endswith("::kid") and len(z[2]) >= 3, [])
    for kc in kids_calls:
        recv, lv, lab = strip_load(kc[2][0]), strip_load(kc[2][1]), kc[2][2]
        if lv[0] != "param":
            continue
        srcs = collect(lab, lambda z: z[0] == "call" and z[1].split("::")[-1] in ("kids",) and len(z[2]) >= 2, [])
        for sc in srcs:
            g, rv = strip_load(sc[2][0]), strip_load(sc[2][1])
            if rv[0] != "param" or rv == lv or g == recv:
                continue
            if mentions(y, lambda z: z == sc):
                return True
    return False


def merge_nontree_exempt(c, b):
    """kept for callers that ask about a body: true iff every state event of the body (as a root) is exempt"""
    evs = [e for e in c.all if e.root_body() is b]
    return True if evs and all(nontree_exempt_event(c, e) for e in evs) else "not every effect is in the non-tree repair path"


# ---------------------------------------------------------------- GC2 removal guard
def gc2(F, R):
    c = context(F)
    if not need_mutators(c, R, "GC2", ("data",)):
        return
    body = c.mut["data"]
    evs = c.ev["data"]
    rem = [e for e in evs if e.kind == "tag_write" and "none" in tag_value_class(e.val)]
    R.floor("GC2", "removal sites in data()", len(rem), 1, body.where())
    tag_writes = [e for e in evs if e.kind == "tag_write"]
    for e in rem:
        hs = loop_header_site(e)
        if hs is not None and e.body is body:
            try:
                br = body.early_exits(hs[0])
            except Exception:
                br = []
            if br:
                R.bad("GC2", "GC2/Sodg::data/destroy-loop-stops-early", e.where(),
                      "the loop that removes the members of a dying group can be left before the last member (break / early return): "
                      "part of the group survives its last unread datum")
    for e in rem:
        k = vkey(e.x)
        detail = {"target": show(e.x, e.body), "guards": show_facts(e.facts, e.body)}
        # (shape) target is a member of the reader's group list
        reader = None
        ok_target = False
        if k is not None:
            kk = strip_load(k)
            if kk[0] == "item":
                src = iter_source(kk[1])
                sl = slot_of(("elem", ("field", ("param", 1), "Sodg::branches"), ("const", 0)), "Sodg::branches")
                if src is not None:
                    s = slot_of(src, "Sodg::branches")
                    if s is not None and is_tag_of(s[1]):
                        rx = strip_load(strip_load(s[1])[1])
                        rk = vkey(rx)
                        if rk is not None and strip_load(rk)[0] == "param":
                            reader = rx
                            ok_target = True
        if not ok_target:
            R.bad("GC2", "GC2/Sodg::data/removal-target-not-reader-group", e.where(),
                  "the vertices removed are not the members of the group of the vertex being read", detail)
            continue
        # (a) first read
        fa = requires(e.facts, lambda s: is_pers_discr_of(s, reader), {"Stored"})
        if fa is None:
            R.bad("GC2", "GC2/Sodg::data/destroy-not-guarded-by-first-read", e.where(),
                  "group destruction is not restricted to the first read of a stored datum", detail)
        # (b) grouped reader
        fb = excludes(e.facts, lambda s: is_tag_of(s, reader), 1)
        if fb is None:
            R.bad("GC2", "GC2/Sodg::data/destroy-not-guarded-by-grouped", e.where(),
                  "group destruction is reachable for an ungrouped reader (tag 1): it would walk the reserved list "
                  "of slot 1 and hand that slot out as a group", detail)
        # (c) counter reached zero after the decrement
        fc = None
        decs = [w for w in evs if w.kind == "cnt_write" and cnt_delta(w) == -1]
        for f in e.facts:
            if f[0] == "in" and f[2] == frozenset([0]):
                subj = f[1]
                sl = slot_of(strip_load(subj), "Sodg::stores") if subj[0] == "load" else None
                if sl is not None and is_tag_of(sl[1], reader):
                    ls = load_site(subj)
                    # the counter is read in the body the guard was evaluated in (the root when the removal sits in a closure)
                    if any((w.body is e.body or w.body is e.root_body()) and w.body.dominates(w.site, ls) for w in decs):
                        fc = f
                # the written value itself compared with 0
                core = strip_load(subj)
                if core[0] == "binop" and core[1] == "Sub" and strip_load(core[3]) == ("const", 1):
                    sl2 = slot_of(strip_load(core[2]), "Sodg::stores")
                    if sl2 is not None and is_tag_of(sl2[1], reader):
                        fc = f
        if fc is None:
            R.bad("GC2", "GC2/Sodg::data/destroy-not-guarded-by-zero-count", e.where(),
                  "group destruction is not restricted to the unread counter having reached exactly 0 after this read",
                  detail)
        ex = extra_guards(e.facts, lambda f: f in (fa, fb, fc) or (f[0] in ("in", "notin") and (is_pers_discr_of(f[1], reader) or is_tag_of(f[1], reader)))
                          or (f[0] in ("in", "notin") and slot_of(strip_load(f[1]), "Sodg::stores") is not None)
                          # "unless it is absent already": skipping the write of 0 where the tag is 0 changes nothing
                          or (f[0] == "notin" and f[2] == frozenset([0]) and is_tag_of(f[1], e.x)), e.body, e.site)
        if fa and fb and fc and ex:
            R.bad("GC2", "GC2/Sodg::data/destroy-extra-condition", e.where(),
                  "a member of the dying group is removed only under an additional condition (%s): part of the group survives its "
                  "last unread datum" % ex, detail)
        elif fa and fb and fc:
            R.ok("GC2", e.where(), "removal guarded by exactly first-read ∧ grouped ∧ counter==0 over the reader's member list",
                 detail)


def cnt_delta(w):
    """+1 / -1 / None for a write to a counter slot"""
    val = strip_load(w.val)
    if val[0] == "binop" and val[1] in ("Add", "Sub"):
        l, r = strip_load(val[2]), strip_load(val[3])
        if r == ("const", 1) and strip_sites(l) == strip_sites(strip_load(w.loc)):
            return 1 if val[1] == "Add" else -1
        if val[1] == "Add" and l == ("const", 1) and strip_sites(r) == strip_sites(strip_load(w.loc)):
            return 1
    return None


# ---------------------------------------------------------------- GC3 read arms
def gc3(F, R):
    c = context(F)
    if not need_mutators(c, R, "GC3", ("data",)):
        return
    body = c.mut["data"]
    evs = c.ev["data"]
    taken = [e for e in evs if e.kind == "pers_write" and variant_of(e.val) == "Taken"]
    params = endpoint_params(body)
    if not taken:
        fin0 = body.facts_in()
        first_read = [bi for bi in sorted(body.reachable) if bi in body.can_return and
                      requires(fin0.get(bi, frozenset()), lambda s: is_pers_discr_of(s) and vkey(strip_load(strip_load(s)[1])[1]) is not None and
                               strip_load(vkey(strip_load(strip_load(s)[1])[1])) in params, {"Stored"}) is not None]
        if first_read:
            R.bad("GC3", "GC3/Sodg::data/stored-arm-may-skip-taken", body.where((first_read[0], 0)),
                  "a first read returns without marking the datum as read (no persistence := Taken anywhere in data())")
            return
    R.floor("GC3", "persistence := Taken writes in data()", len(taken), 1, body.where())
    readers = [e.x for e in taken if vkey(e.x) is not None and strip_load(vkey(e.x)) in params]
    if not readers:
        for e in taken:
            R.bad("GC3", "GC3/Sodg::data/taken-on-other-vertex", e.where(), "Taken is recorded on a vertex other than the one read")
        R.missing("GC3", "Taken recorded on the vertex named by data()'s parameter", body.where())
        return
    reader = readers[0]
    for e in taken:
        if strip_sites(e.x) != strip_sites(reader):
            R.bad("GC3", "GC3/Sodg::data/taken-on-other-vertex", e.where(), "Taken is recorded on a vertex other than the one read")
    # every path on which the datum may be unread (nothing known excludes Stored) passes a Taken write before returning:
    # search from the entry through blocks whose facts do not exclude Stored, stopping at Taken writes
    fin = body.facts_in()

    def excludes_stored(bi):
        for f in fin.get(bi, frozenset()):
            if f[0] == "in" and is_pers_discr_of(f[1], reader) and "Stored" not in f[2]:
                return True
            if f[0] == "notin" and is_pers_discr_of(f[1], reader) and "Stored" in f[2]:
                return True
        return False
    own_blocks = {e.site[0] for e in taken if e.body is body}
    seen = set()
    st = [0]
    leak = None
    while st:
        x = st.pop()
        if x in seen or x in own_blocks or excludes_stored(x):
            continue
        seen.add(x)
        if body.blocks[x]["term"]["k"] == "return":
            leak = x
            break
        st.extend(s2 for s2, _ in body.succ[x])
    known = any(requires(fin.get(bi, frozenset()), lambda s: is_pers_discr_of(s, reader), {"Stored"}) is not None for bi in body.reachable)
    if leak is not None:
        R.bad("GC3", "GC3/Sodg::data/stored-arm-may-skip-taken", body.where((leak, 0)),
              "a first read can return without marking the datum as read (persistence := Taken)")
    elif not known:
        R.missing("GC3", "a path of data() on which the read vertex is known to hold an unread datum", body.where())
    else:
        R.ok("GC3", body.where(), "every returning path on which the datum may be unread records Taken")
    # no state event outside the Stored arm
    n = 0
    for e in evs:
        n += 1
        if requires(e.facts, lambda s: is_pers_discr_of(s, reader), {"Stored"}) is None:
            # `persistence := Taken` where it is Stored or already Taken changes nothing on a repeated read
            if e.kind == "pers_write" and variant_of(e.val) == "Taken" and \
                    requires(e.facts, lambda s: is_pers_discr_of(s, reader), {"Stored", "Taken"}) is not None and \
                    pers_fact_is_prestate(requires(e.facts, lambda s: is_pers_discr_of(s, reader), {"Stored", "Taken"}), body, [e]):
                continue
            R.bad("GC3", "GC3/Sodg::data/effect-outside-first-read/%s" % e.kind, e.where(),
                  "data() changes graph state on a path that is not the first read of a stored datum (%s)" % e.kind,
                  {"guards": show_facts(e.facts, e.body)})
    R.ok("GC3", body.where(), "all %d state events of data() lie in the first-read arm" % n)


# ---------------------------------------------------------------- GC4 counter pairing
def gc4(F, R):
    c = context(F)
    if not need_mutators(c, R, "GC4"):
        return
    # who may write counters
    n_cnt = 0
    for e in c.all:
        fk = e.fn_key()
        if e.kind == "cnt_write":
            n_cnt += 1
            if fk not in ("Sodg::put", "Sodg::data", "Sodg::bind"):
                R.bad("GC4", "GC4/%s/counter-write" % fk, e.where(),
                      "unread counter written outside put/data/bind")
            elif cnt_delta(e) is None:
                R.bad("GC4", "GC4/%s/counter-write-not-unit-step" % fk, e.where(),
                      "unread counter written with something other than ±1 of its own value",
                      {"value": show(e.val, e.body)})
        elif e.kind == "map_call" and e.field == "Sodg::stores":
            R.bad("GC4", "GC4/%s/stores-%s" % (fk, e.op), e.where(), "whole-slot operation on the counter table")
        elif e.kind in ("sodg_field_write", "sodg_deep_write") and e.d.get("field") == "Sodg::stores" and fk != "Sodg::empty" and \
                not building_a_copy(e, fk):
            R.bad("GC4", "GC4/%s/stores-replaced" % fk, e.where(), "counter table replaced / written directly")
    R.floor("GC4", "counter updates", n_cnt, 2)
    # the read status the counters count is changed by put(), data() and add() only: a datum marked unread (or read) anywhere
    # else escapes the accounting
    for e in c.all:
        if e.kind == "pers_write" and e.fn_key() not in ("Sodg::put", "Sodg::data", "Sodg::add") and not nontree_exempt_event(c, e):
            R.bad("GC4", "GC4/%s/read-status-written-outside-the-mutators" % e.fn_key(), e.where(),
                  "the read status of a vertex is written outside put()/data()/add(): the unread counter of its group is not adjusted "
                  "with it (a datum marked unread here is not counted, its group dies while it is unread)",
                  {"value": show(e.val, e.body)})

    # ---- put
    body = c.mut["put"]
    evs = c.ev["put"]
    stores = [e for e in evs if e.kind == "pers_write" and variant_of(e.val) == "Stored"]
    incs = [e for e in evs if e.kind == "cnt_write" and cnt_delta(e) == 1]
    R.floor("GC4", "persistence := Stored writes in put()", len(stores), 1, body.where())
    # after put(v, d) the vertex holds an unread datum, whatever it held before: some Stored write happens on every
    # returning path, under no condition
    def only_when_not_stored_yet(e):
        """the write is skipped only where the vertex is Stored already"""
        x = e.x
        ok = lambda f: f[0] in ("in", "notin") and is_pers_discr_of(f[1], x) and \
            ((f[0] == "notin" and f[2] == frozenset(["Stored"])) or (f[0] == "in" and f[2] == frozenset(["Empty", "Taken"])))
        return not extra_guards(e.facts, ok, e.body, e.site) and any(ok(f) for f in e.facts) and pers_fact_is_prestate(("in", ("discr", x), frozenset()), body, stores)
    if stores and not any((e.uncond and not extra_guards(e.facts, lambda f: False, e.body, e.site)) or only_when_not_stored_yet(e) for e in stores):
        e = stores[0]
        R.bad("GC4", "GC4/Sodg::put/stored-write-conditional", e.where(),
              "put() marks the vertex as holding an unread datum only on some paths: a datum stored again (after it was read) is "
              "not counted as unread, and its group dies while it is unread", {"guards": show_facts(e.facts, e.body)})
    for e in [e for e in evs if e.kind == "cnt_write" and cnt_delta(e) == -1]:
        R.bad("GC4", "GC4/Sodg::put/decrement", e.where(), "put() decrements an unread counter")
    if not incs:
        R.bad("GC4", "GC4/Sodg::put/no-increment", body.where(), "put() never counts the datum against the vertex's group")
    for e in incs:
        x = put_target(stores)
        detail = {"counter": show(e.loc, e.body), "guards": show_facts(e.facts, e.body)}
        if x is None or not is_tag_of(e.i, x):
            R.bad("GC4", "GC4/Sodg::put/inc-wrong-counter", e.where(),
                  "the counter incremented is not the one of the group of the vertex written", detail)
            continue
        g1 = excludes(e.facts, lambda s: is_tag_of(s, x), 1)
        if g1 is None:
            R.bad("GC4", "GC4/Sodg::put/inc-not-guarded-by-grouped", e.where(),
                  "put() on an ungrouped vertex (tag 1) is counted against reserved slot 1; the datum is then never "
                  "counted for the group the vertex joins later (underflow at the read)", detail)
        # pre-state persistence was not Stored
        g2 = None
        narrow = None
        for f in e.facts:
            if f[0] in ("in", "notin") and is_pers_discr_of(f[1], x):
                if (f[0] == "notin" and f[2] == frozenset(["Stored"])) or (f[0] == "in" and f[2] == frozenset(["Empty", "Taken"])):
                    # the tested value must be read before the Stored write
                    g2 = f
                elif (f[0] == "notin" and "Stored" in f[2]) or (f[0] == "in" and "Stored" not in f[2]):
                    narrow = f
        if g2 is not None:
            # pre-state: find the load this fact talks about; it must not be after a Stored write
            ok_pre = True
            for sub in walk(g2):
                pass
            g2 = g2 if pers_fact_is_prestate(g2, body, stores) else None
        if g2 is None and narrow is not None:
            R.bad("GC4", "GC4/Sodg::put/inc-guard-narrower-than-unread-gain", e.where(),
                  "put() counts the datum only for some of the not-Stored states (%s): a put on a vertex whose datum was already read "
                  "(Taken) is not counted, the counter falls below the number of unread data and the group dies while a datum is "
                  "unread" % show(narrow, e.body), detail)
        elif g2 is None:
            R.bad("GC4", "GC4/Sodg::put/inc-not-guarded-by-unread-gain", e.where(),
                  "an overwriting put() (vertex already holds an unread datum) is counted again: the counter exceeds the "
                  "number of unread data and the group never dies", detail)
        ex = extra_guards(e.facts, lambda f: (f[0] in ("in", "notin") and (is_pers_discr_of(f[1], x) or is_tag_of(f[1], x))), e.body, e.site)
        if ex:
            R.bad("GC4", "GC4/Sodg::put/inc-extra-condition", e.where(),
                  "the put-gain is skipped under an additional condition (%s): some unread data are not counted" % ex, detail)
        elif g1 and g2:
            R.ok("GC4", e.where(), "put-gain: counter of TAG(v) += 1 under exactly grouped ∧ was-not-Stored", detail)

    # ---- data
    body = c.mut["data"]
    evs = c.ev["data"]
    decs = [e for e in evs if e.kind == "cnt_write" and cnt_delta(e) == -1]
    taken = [e for e in evs if e.kind == "pers_write" and variant_of(e.val) == "Taken"]
    for e in [e for e in evs if e.kind == "cnt_write" and cnt_delta(e) == 1]:
        R.bad("GC4", "GC4/Sodg::data/increment", e.where(), "data() increments an unread counter")
    if taken and not decs:
        R.bad("GC4", "GC4/Sodg::data/no-decrement", body.where(), "a first read never decrements the group's unread counter")
    for e in decs:
        x = taken[0].x if taken else None
        detail = {"counter": show(e.loc, e.body), "guards": show_facts(e.facts, e.body)}
        if x is None or not is_tag_of(e.i, x):
            R.bad("GC4", "GC4/Sodg::data/dec-wrong-counter", e.where(),
                  "the counter decremented is not the one of the group of the vertex read", detail)
            continue
        if requires(e.facts, lambda s: is_pers_discr_of(s, x), {"Stored"}) is None:
            R.bad("GC4", "GC4/Sodg::data/dec-not-in-first-read", e.where(), "decrement outside the first-read arm", detail)
        if excludes(e.facts, lambda s: is_tag_of(s, x), 1) is None:
            R.bad("GC4", "GC4/Sodg::data/dec-not-guarded-by-grouped", e.where(),
                  "reading an ungrouped vertex (tag 1) decrements the counter of reserved slot 1", detail)
        else:
            ex = extra_guards(e.facts, lambda f: (f[0] in ("in", "notin") and (is_pers_discr_of(f[1], x) or is_tag_of(f[1], x))), e.body, e.site)
            if ex:
                R.bad("GC4", "GC4/Sodg::data/dec-extra-condition", e.where(),
                      "the first read of a grouped vertex decrements the unread counter only under an additional condition (%s): the "
                      "counter stays above the number of unread data (group never dies / slot handed back with a non-zero counter)" % ex, detail)
            else:
                R.ok("GC4", e.where(), "read-loss: counter of TAG(v) -= 1 in the first-read arm of a grouped vertex, no other condition", detail)
        # decrement happens on every path that records Taken for a grouped vertex: checked via co-domination
    for t in taken:
        # every Taken must be accompanied by a decrement on the grouped path
        if decs and not any(d.body is t.body and (t.body.dominates(t.site, d.site) or t.body.dominates(d.site, t.site)) for d in decs):
            R.bad("GC4", "GC4/Sodg::data/taken-without-decrement", t.where(), "Taken recorded on a path with no decrement")

    # ---- bind: join-gain
    body = c.mut["bind"]
    evs = c.ev["bind"]
    joins = [e for e in evs if e.kind == "tag_write"]
    incs = [e for e in evs if e.kind == "cnt_write" and cnt_delta(e) == 1]
    for e in [e for e in evs if e.kind == "cnt_write" and cnt_delta(e) == -1]:
        R.bad("GC4", "GC4/Sodg::bind/decrement", e.where(), "bind() decrements an unread counter")
    used = set()
    for j in joins:
        detail = {"join": "%s.branch := %s" % (show(j.x, j.body), show(j.val, j.body)),
                  "guards": show_facts(j.facts, j.body)}
        match = None
        for e in incs:
            if not is_same_group(e.i, j.val):
                continue
            # the increment is executed exactly when the join is, plus the Stored test
            if not (ev_dominates(j, e) or ev_dominates(e, j) or j.site[0] == e.site[0] or
                    j.body.reaches(j.site, e.site) or j.body.reaches(e.site, j.site)):
                continue
            if requires(e.facts, lambda s: is_pers_discr_of(s, j.x), {"Stored"}) is None:
                continue
            # facts of the increment ⊇ facts of the join (same path) apart from the Stored test
            jf = {strip_sites(f) for f in j.facts if "Level" not in repr(f)}
            ef = {strip_sites(f) for f in e.facts}
            if not jf <= ef:
                continue
            match = e
            break
        if match is None:
            which = join_kind(j, body)
            R.bad("GC4", "GC4/Sodg::bind/join-without-carry/%s" % which, j.where(),
                  "a vertex that already holds an unread datum joins a group without being counted: the read that "
                  "follows decrements a counter that never counted it (underflow / early collection)", detail)
        else:
            used.add(id(match))
            R.ok("GC4", j.where(), "join-gain: joining vertex's unread datum is counted against the group it joins", detail)
    for e in incs:
        if id(e) not in used:
            R.bad("GC4", "GC4/Sodg::bind/increment-without-join", e.where(),
                  "bind() increments an unread counter that is not the carry-over of a joining vertex",
                  {"counter": show(e.loc, e.body), "guards": show_facts(e.facts, e.body)})
    # completeness the other way: every Stored write has a gain, every Taken a loss — done above


def extra_guards(facts, allowed, body, site=None):
    """guards other than the allowed ones (overflow asserts, logging and iterator protocol are never guards)"""
    out = []
    for f in facts:
        if "Level" in repr(f) or "log::" in repr(f):
            continue
        if f[0] == "bool" and strip_load(f[1])[0] == "ovf":
            continue
        if f[0] == "in" and strip_load(f[1])[0] == "discr" and strip_load(strip_load(f[1])[1])[0] == "next":
            continue
        # the outcome of the free-slot search (an Option built from an item of the slot table): "no slot free" is the
        # excluded case "more than 14 groups alive"
        if f[0] == "in" and strip_load(f[1])[0] == "discr" and strip_load(strip_load(f[1])[1])[0] in ("phi", "find", "agg", "optmap", "opt") and \
                mentions(f[1], lambda x: x[0] == "iter" and strip_load(x[1])[0] == "field" and strip_load(x[1])[2] == "Sodg::branches"):
            continue
        if f[0] == "const":
            continue
        if allowed(f):
            continue
        if f in body.presence_assertions():
            continue
        if site is not None and asserted_precondition(body, f, site):
            continue
        # "the slot looked up in one of the graph's tables exists": every slot of the three tables is filled by the
        # constructor and ids beyond the capacity are outside the documented preconditions
        if f[0] == "in" and f[2] == frozenset(["Some"]) and strip_load(f[1])[0] == "discr":
            o = strip_load(strip_load(f[1])[1])
            if o[0] == "opt" and strip_load(o[1])[0] == "elem" and strip_load(strip_load(o[1])[1])[0] == "field" and \
                    strip_load(strip_load(o[1])[1])[2] in ("Sodg::vertices", "Sodg::stores", "Sodg::branches"):
                continue
        out.append(show(f, body))
    return out


def put_target(stores):
    return stores[0].x if stores else None


def pers_fact_is_prestate(f, body, stored_writes):
    """the persistence tested was read before put() overwrote it"""
    # the discr subject wraps a load with a site; find it
    subj = f[1]
    inner = subj[1] if subj[0] == "discr" else None
    # our discr subjects are strip_load'ed; recover the load site from the switch: conservative approach:
    # find, in the body, discriminant reads of Vertex::persistence and check each is before the Stored writes
    ok = False
    for bi in sorted(body.reachable):
        blk = body.blocks[bi]
        for si, s in enumerate(blk["stmts"]):
            if s["k"] == "assign" and s["rv"]["k"] == "discr":
                e = body.expr_rvalue(s["rv"], (bi, si))
                if is_pers_discr_of(("discr", strip_load(e[1]))):
                    if any(w.body is body and body.reaches(w.site, (bi, si)) for w in stored_writes):
                        return False
                    ok = True
        t = blk["term"]
        if t["k"] == "call":
            cc = t["callee"]
            if cc.get("path", "").endswith("PartialEq>::eq") or cc.get("path", "").endswith("PartialEq>::ne") or \
                    cc.get("decl", "") in ("std::cmp::PartialEq::eq", "std::cmp::PartialEq::ne"):
                csite = (bi, len(blk["stmts"]))
                args = body.call_args(t, csite)
                for a0 in args:
                    a = strip_load(deref_addr(body, a0))
                    if a[0] == "field" and a[2] == "Vertex::persistence":
                        # where the compared value was read: at the call (a reference to the field itself), or where a local
                        # copy of the field was made (`let before = mem::replace(..)`, `let old = vtx.persistence`)
                        reads = [csite]
                        a0s = strip_load(a0)
                        if a0s[0] == "addr":
                            rds = body.reaching_defs(a0s[1], a0s[2])
                            if rds and ("entry",) not in rds and all(d[1] < len(body.blocks[d[0]]["stmts"]) for d in rds):
                                reads = [tuple(d) for d in rds]
                        if any(w.body is body and body.reaches(w.site, r) for w in stored_writes for r in reads):
                            return False
                        ok = True
    return ok


def is_same_group(i, g):
    """counter index i denotes the same group expression as tag value g"""
    return strip_sites(strip_load(i)) == strip_sites(strip_load(g))


def join_kind(j, body):
    cls = tag_value_class(j.val)
    k = vkey(j.x)
    who = show(k, body) if k is not None else "?"
    pidx = strip_load(k)[1] - 1 if k is not None and strip_load(k)[0] == "param" else "?"
    return "endpoint%s-%s" % (pidx, "+".join(sorted(cls)))


# ---------------------------------------------------------------- GC5 membership pairing
def gc5(F, R):
    c = context(F)
    if not need_mutators(c, R, "GC5", ("bind",)):
        return
    n_push = 0
    for e in c.all:
        fk = e.fn_key()
        if e.kind == "mem_call" and e.op == "push":
            n_push += 1
            if fk != "Sodg::bind":
                R.bad("GC5", "GC5/%s/push" % fk, e.where(), "a vertex is added to a group member list outside bind()")
        elif e.kind == "mem_call" and e.op not in ("push", "clear"):
            R.bad("GC5", "GC5/%s/member-list-%s" % (fk, e.op), e.where(),
                  "member list changed by an operation other than push (bind) / clear (data): %s" % e.op)
        elif e.kind == "mem_write":
            R.bad("GC5", "GC5/%s/member-list-overwritten" % fk, e.where(), "member list slot overwritten")
    R.floor("GC5", "member-list pushes", n_push, 1)
    body = c.mut["bind"]
    evs = c.ev["bind"]
    joins = [e for e in evs if e.kind == "tag_write"]
    pushes = [e for e in evs if e.kind == "mem_call" and e.op == "push"]
    tag_writes = joins
    params = endpoint_params(body)
    used = set()
    for j in joins:
        k = vkey(j.x)
        detail = {"join": "%s.branch := %s" % (show(j.x, j.body), show(j.val, j.body)),
                  "guards": show_facts(j.facts, j.body)}
        kk = strip_load(k) if k is not None else None
        if kk is None or kk not in params:
            R.bad("GC5", "GC5/Sodg::bind/tag-write-not-endpoint", j.where(),
                  "bind() changes the group tag of a vertex that is not one of its two endpoints", detail)
            continue
        cls = tag_value_class(j.val)
        if "none" in cls or "static" in cls and len(cls) == 1:
            R.bad("GC5", "GC5/Sodg::bind/tag-write-%s" % "+".join(sorted(cls)), j.where(),
                  "bind() writes tag 0/1: un-grouping or removing an endpoint", detail)
            continue
        # guarded by pre-state TAG(y) == 1
        g = None
        for f in j.facts:
            if f[0] == "in" and f[2] == frozenset([1]) and is_tag_of(f[1], j.x):
                if pre_state(f[1], body, [w for w in tag_writes if strip_sites(w.x) == strip_sites(j.x)]):
                    g = f
        if g is None:
            R.bad("GC5", "GC5/Sodg::bind/join-not-guarded-by-ungrouped/%s" % join_kind(j, body), j.where(),
                  "an endpoint's group tag is overwritten although it may already belong to a group "
                  "(binding two grouped vertices must change no group)", detail)
        # matching push
        m = None
        for p in pushes:
            if id(p) in used:
                continue
            if not p.args or strip_sites(strip_load(p.args[0])) != strip_sites(kk):
                continue
            if not is_same_group(p.i, j.val):
                continue
            if not ev_cooccur(j, p):
                continue
            m = p
            break
        if m is None:
            R.bad("GC5", "GC5/Sodg::bind/join-without-push/%s" % join_kind(j, body), j.where(),
                  "an endpoint's tag is set to a group without the endpoint being pushed onto that group's member "
                  "list on the same paths (it would survive its group, or be missed by the destruction loop)", detail)
        else:
            used.add(id(m))
            ex = extra_guards(j.facts, lambda f: (f[0] in ("in", "notin") and is_tag_of(f[1])) or
                              (f[0] in ("bool", "in") and mentions(f, lambda x: x[0] == "call" and x[1].split("::")[-1] in ("is_empty", "len") and "microstack" in x[1])), j.body, j.site)
            if g is not None and ex:
                R.bad("GC5", "GC5/Sodg::bind/join-extra-condition/%s" % join_kind(j, body), j.where(),
                      "an ungrouped endpoint joins the group only under an additional condition (%s): otherwise it stays "
                      "ungrouped and is never collected" % ex, detail)
            elif g is not None:
                R.ok("GC5", j.where(), "join: tag(y) := g ⟺ push(g, y), y an endpoint, guarded by pre-state TAG(y) ∈ {1} and tags only", detail)
    for p in pushes:
        if id(p) not in used:
            R.bad("GC5", "GC5/Sodg::bind/push-without-join", p.where(),
                  "a vertex is pushed onto a member list without its tag being set to that group on the same paths",
                  {"list": show(p.loc, p.body), "arg": show(p.args[0], p.body) if p.args else None,
                   "guards": show_facts(p.facts, p.body)})


def endpoint_params(body):
    """("param", n) for the usize parameters of the body"""
    out = []
    for i in range(1, body.arg_count + 1):
        if body.locals[i]["ty"] == "usize":
            out.append(("param", i))
    return out


# ---------------------------------------------------------------- GC6 slot discipline
def gc6(F, R, parts="abcd"):
    c = context(F)
    if not need_mutators(c, R, "GC6", ("bind", "data")):
        return
    if "a" in parts:
        body = c.mut["bind"]
        evs = c.ev["bind"]
        n = 0
        newgroup = [e for e in evs if e.kind == "mem_call" and e.op == "push" and
                    (e.how == "item" or tag_value_class(e.i) == {"slot-key"})]
        for p in newgroup:
            n += 1
            detail = {"list": show(p.loc, p.body), "guards": show_facts(p.facts, p.body)}
            # the slot-table item the group id / the list comes from
            items = [x for x in walk(p.i) if x[0] == "item" and iter_source(x[1]) is not None and
                     strip_load(iter_source(x[1]))[0] == "field" and strip_load(iter_source(x[1]))[2] == "Sodg::branches"]
            if not items:
                items = [x for x in walk(p.loc) if x[0] == "item"]
            okf = None
            for f in p.facts:
                ce = None
                if f[0] == "bool" and f[2] is True:
                    ce = strip_load(f[1])
                    if not (ce[0] == "call" and ce[1].endswith("::is_empty") and "microstack" in ce[1]):
                        ce = None
                if f[0] == "in" and f[2] == frozenset([0]):
                    ce = strip_load(f[1])
                    if not (ce[0] == "call" and ce[1].endswith("::len") and "microstack" in ce[1]):
                        ce = None
                if ce is not None:
                    lst = strip_load(ce[2][0])
                    if strip_sites(lst) == strip_sites(strip_load(p.loc)):
                        okf = f
                    if lst[0] == "field" and lst[2] == "(tuple)::1" and any(strip_sites(strip_load(lst[1])) == strip_sites(it) for it in items):
                        okf = f
            if okf is None:
                R.bad("GC6", "GC6/Sodg::bind/new-group-slot-not-checked-empty", p.where(),
                      "a new group is started in a member-list slot that is not checked to be empty", detail)
            else:
                R.ok("GC6", p.where(), "new group takes a slot found empty, id = that slot's key", detail)
            # the search must scan every slot (no skip/take that could hide free ones; a filter/find on emptiness is the search itself)
            for it in items[:1]:
                ads = iter_adaptors(it[1])
                if any(a[0] not in ("enumerate", "filter") for a in ads):
                    R.bad("GC6", "GC6/Sodg::bind/slot-search-restricted", p.where(),
                          "the free-slot search does not scan every slot (adaptors: %s)" % [a[0] for a in ads], detail)
                src_how = strip_load(it[1])
                while src_how[0] == "adapt":
                    src_how = strip_load(src_how[2])
                if src_how[0] != "iter" or src_how[2] not in ("iter", "iter_mut", "into_iter"):
                    R.bad("GC6", "GC6/Sodg::bind/slot-search-restricted", p.where(),
                          "the free-slot search does not walk the slot table itself (%s)" % show(src_how, p.body), detail)
            if not items:
                R.bad("GC6", "GC6/Sodg::bind/slot-search-restricted", p.where(), "cannot establish GC6a: the new group's slot does not come from a scan of the slot table", detail)
        # a new-group join must exist when both are ungrouped
        R.floor("GC6", "slot-search pushes in bind()", n, 1, body.where())
    if "b" in parts:
        body = c.mut["data"]
        evs = c.ev["data"]
        rem = [e for e in evs if e.kind == "tag_write" and "none" in tag_value_class(e.val)]
        clears = [e for e in evs if e.kind == "mem_call" and e.op == "clear"]
        for e in rem:
            k = vkey(e.x)
            kk = strip_load(k) if k is not None else None
            src = iter_source(kk[1]) if kk is not None and kk[0] == "item" else None
            ok = False
            for cl in clears:
                if src is not None and strip_sites(strip_load(cl.loc)) == strip_sites(strip_load(src)):
                    # every returning path from the loop exit passes the clear:
                    # the clear is in the same guarded region as the loop (facts of the loop header ⊆ facts of the clear)
                    # and post-dominates the loop's iterator construction
                    hdr = loop_header_site(e)
                    if hdr is not None and cl.body is e.body and e.body.postdominates(cl.site, hdr):
                        ok = True
                    # the removal runs in a closure handed to for_each: the `for_each` call is the loop
                    if hdr is None and e.chain and cl.body is e.chain[-1][0] and cl.body.postdominates(cl.site, e.chain[-1][1]):
                        ok = True
            if not ok:
                R.bad("GC6", "GC6/Sodg::data/destroyed-group-list-not-cleared", e.where(),
                      "after destroying a group its member list is not emptied on every path: the slot is never handed "
                      "out again (capacity leak) and stale members stay listed",
                      {"guards": show_facts(e.facts, e.body)})
            else:
                R.ok("GC6", e.where(), "destruction loop is followed by clear() of the same member list on every returning path")
        for cl in clears:
            # a clear must belong to a destruction
            if not rem:
                R.bad("GC6", "GC6/Sodg::data/clear-without-destruction", cl.where(), "member list cleared without destroying the members")
        R.floor("GC6", "member-list clears in data()", len(clears), 1, body.where())
    if "c" in parts:
        ctor = F.fn("Sodg", "empty")
        if ctor is None:
            R.missing("GC6", "Sodg::empty")
        else:
            evs, raw, col = state_events(F, ctor, stop_names=())
            R.analysed(ctor, len(raw))
            ins = [e for e in evs if e.kind == "map_call" and e.field == "Sodg::branches" and e.op == "insert"]
            # the same on a table built in a local before it becomes the `branches` field of the graph
            brv = None
            for site, kind, s in ctor.sites():
                if kind == "stmt" and s["k"] == "assign" and s["rv"]["k"] == "aggregate" and s["rv"].get("adt") == "Sodg":
                    brv = (site, strip_load(dict(ctor.expr_rvalue(s["rv"], site)[3]).get("branches", ("?",))))
            if brv is not None:
                for e in raw:
                    if e.kind == "call" and e.krate == "emap" and e.name == "insert" and e.args and e.body is ctor and \
                            strip_sites(strip_load(e.args[0])) == strip_sites(brv[1]) and (ctor.dominates(e.site, brv[0]) or e.uncond):
                        ne = Ev("map_call", e.body, e.site, e.facts, e.chain, raw=e, field="Sodg::branches", graph=None, op="insert", args=e.args[1:])
                        ne.uncond = e.uncond
                        ins.append(ne)
            keys = set()
            for e in ins:
                k = strip_load(e.args[0]) if e.args else None
                v = strip_load(e.args[1]) if len(e.args) > 1 else None
                nonempty = False
                for _ in range(3):   # a clone / copy of a sentinel list is that list
                    if v is not None and v[0] == "call" and v[1].split("::")[-1] in ("clone", "to_owned") and v[2]:
                        v = strip_load(v[2][0])
                if v is not None and v[0] == "call" and v[1].endswith("::from_vec"):
                    n = literal_len(v[2][0], ctor)
                    nonempty = n is not None and 1 <= n <= 16
                if k is not None and k[0] == "const" and nonempty and e.uncond:
                    keys.add(k[1])
                    R.ok("GC6", e.where(), "reserved slot %d holds a non-empty sentinel list" % k[1])
                else:
                    R.bad("GC6", "GC6/Sodg::empty/sentinel-insert-shape", e.where(),
                          "constructor inserts something other than a non-empty literal list at a constant slot",
                          {"key": show(k, e.body) if k else None, "value": show(v, e.body) if v else None})
            for need in (0, 1):
                if need not in keys:
                    R.bad("GC6", "GC6/Sodg::empty/sentinel-missing-%d" % need, ctor.where(),
                          "reserved member list %d is not kept non-empty by a sentinel: it would be handed out as a group" % need)
            # the aggregate: counters start at 0, lists start empty
            agg = None
            for site, kind, s in ctor.sites():
                if kind == "stmt" and s["k"] == "assign" and s["rv"]["k"] == "aggregate" and s["rv"].get("adt") == "Sodg":
                    agg = ctor.expr_rvalue(s["rv"], site)
            if agg is None:
                R.missing("GC6", "Sodg aggregate in the constructor", ctor.where())
            else:
                fs = dict(agg[3])
                st = strip_load(fs.get("stores", ("?",)))
                br = strip_load(fs.get("branches", ("?",)))
                ok_st = st[0] == "call" and st[1].endswith("with_capacity_some") and strip_load(st[2][1]) == ("const", 0)
                ok_br = br[0] == "call" and br[1].endswith("with_capacity_some") and \
                    strip_load(br[2][1])[0] == "call" and strip_load(br[2][1])[1].endswith("::new")
                same_cap = ok_st and ok_br and strip_sites(st[2][0]) == strip_sites(br[2][0])
                if not ok_st:
                    R.bad("GC6", "GC6/Sodg::empty/counters-not-zero", ctor.where(), "unread counters are not initialised to 0 in every slot", {"stores": show(st, ctor)})
                if not ok_br:
                    R.bad("GC6", "GC6/Sodg::empty/lists-not-empty", ctor.where(), "member lists are not initialised empty in every slot", {"branches": show(br, ctor)})
                if ok_st and ok_br and not same_cap:
                    R.bad("GC6", "GC6/Sodg::empty/tables-differ-in-size", ctor.where(), "counter table and member-list table have different sizes")
                if ok_st and ok_br and same_cap:
                    R.ok("GC6", ctor.where(), "constructor: counters all 0, lists all empty, same table size")
    if "d" in parts:
        for e in c.all:
            fk = e.fn_key()
            if e.kind == "map_call" and e.field in ("Sodg::branches", "Sodg::stores"):
                if fk == "Sodg::empty" and e.op == "insert" and e.field == "Sodg::branches":
                    continue
                R.bad("GC6", "GC6/%s/%s-%s" % (fk, e.field.split("::")[1], e.op), e.where(),
                      "whole-slot operation on the group tables outside the constructor")
            if e.kind == "mem_call" and e.op == "clear" and fk != "Sodg::data":
                R.bad("GC6", "GC6/%s/clear" % fk, e.where(), "member list cleared outside data()")
            if e.kind in ("sodg_field_write",) and e.field in ("Sodg::branches", "Sodg::stores") and fk != "Sodg::empty" and \
                    not building_a_copy(e, fk):
                R.bad("GC6", "GC6/%s/%s-replaced" % (fk, e.field.split("::")[1]), e.where(), "group table replaced")


def limits(F, R, exact=False):
    """LM: the documented limits are available — the two group tables have at least 16 slots (2 reserved + 14 groups), a
    member list holds at least 16 vertices (so calls within the limits complete).  exact=True (C07): a member list holds
    exactly 16, so the 17th member stops with a panic as documented.  Larger tables change nothing within the limits."""
    import re as _re
    ctor = F.fn("Sodg", "empty")
    if ctor is None:
        R.missing("LM1", "Sodg::empty")
    else:
        n = 0
        for site, kind, s in ctor.sites():
            if kind == "stmt" and s["k"] == "assign" and s["rv"]["k"] == "aggregate" and s["rv"].get("adt") == "Sodg":
                fs = dict(ctor.expr_rvalue(s["rv"], site)[3])
                for fname in ("stores", "branches"):
                    v = strip_load(fs.get(fname, ("?",)))
                    n += 1
                    cap = strip_load(v[2][0]) if v[0] == "call" and v[1].split("::")[-1].startswith("with_capacity") and v[2] else None
                    if cap is not None and cap[0] == "const" and type(cap[1]) is int and cap[1] >= 16:
                        R.ok("LM1", ctor.where(site), "the `%s` table has %d slots: 2 reserved and at least 14 for groups" % (fname, cap[1]))
                    else:
                        R.bad("LM1", "LM1/Sodg::empty/%s-table-size" % fname, ctor.where(site),
                              "the `%s` table is not created with at least 16 slots (2 reserved + the documented 14 groups alive at once): %s"
                              % (fname, show(cap, ctor) if cap else show(v, ctor)[:120]))
        R.floor("LM1", "group tables sized in the constructor", n, 2, ctor.where())
    sodg = F.adts.get("Sodg")
    ty = None
    if sodg is not None:
        for f in sodg["variants"][0]["fields"]:
            if f["name"] == "branches":
                ty = f["ty"]
    m = _re.search(r"Stack<\s*usize\s*,\s*([\w:]+)\s*>", ty or "")
    if not m:
        R.missing("LM2", "member-list type microstack::Stack<usize, K> of Sodg::branches")
    else:
        k = m.group(1).split("::")[-1]
        val = int(k) if k.isdigit() else F.consts.get(k)
        if val == 16 or (not exact and isinstance(val, int) and val > 16):
            R.ok("LM2", sodg["span"], "a group's member list holds %s vertices (%s)" % (val, m.group(0)))
        elif isinstance(val, int) and val > 16:
            R.bad("LM2", "LM2/Sodg::branches/member-list-accepts-more-than-16", sodg["span"],
                  "a group's member list holds %s vertices (%s): a 17th member is accepted instead of stopping with a panic" % (val, m.group(0)))
        else:
            R.bad("LM2", "LM2/Sodg::branches/member-list-size", sodg["span"],
                  "a group's member list does not hold the documented 16 vertices (%s = %s): a call within the limits panics"
                  % (m.group(0), val))


def loop_header_site(e):
    """site of the `next` call that produced the iteration item a removal acts on"""
    k = vkey(e.x)
    kk = strip_load(k) if k is not None else None
    if kk is None or kk[0] != "item":
        return None
    bb = kk[2]
    if isinstance(bb, int):
        return (bb, e.body.term_idx(bb))
    return None


def literal_len(e, body=None):
    """length of a literal array / vec!-like expression, None if not literal"""
    import re as _re
    core = strip_load(e)
    for _ in range(6):
        if core[0] == "call" and core[1].split("::")[-1] == "new_uninit" and body is not None and len(core) > 3 and \
                isinstance(core[3], int) and core[3] < len(body.blocks):
            # vec![a, b, c] allocates Box<MaybeUninit<[T; n]>> and writes the literal array into it
            t = body.blocks[core[3]]["term"]
            if t["k"] == "call" and not t["dest"]["proj"]:
                m = _re.search(r"MaybeUninit<\[[^;\]]+; (\d+)\]>", body.locals[t["dest"]["local"]]["ty"])
                if m:
                    return int(m.group(1))
            return None
        if core[0] == "array":
            return len(core[1])
        if core[0] == "repeat":
            try:
                return int(core[2])
            except ValueError:
                return None
        if core[0] == "cast":
            core = strip_load(core[2])
            continue
        if core[0] == "call" and core[2]:
            n = core[1].split("::")[-1]
            if n in ("to_vec", "into_vec", "from", "box_new", "new", "into", "to_owned", "box_assume_init_into_vec_unsafe",
                     "write", "new_uninit", "box_uninit_array_into_vec_unsafe"):
                core = strip_load(core[2][-1] if n == "write" else core[2][0])
                continue
        return None
    return None


# ---------------------------------------------------------------- GC7 add discipline
def gc7(F, R, part="ab"):
    """a = guard (tag written only for an absent vertex; present vertex untouched)
       b = blanking (edges, data, read status reset together with the tag)"""
    c = context(F)
    if not need_mutators(c, R, "GC7", ("add", "data")):
        return
    body = c.mut["add"]
    evs = c.ev["add"]
    creates = [e for e in evs if e.kind == "tag_write"]
    R.floor("GC7", "tag writes in add()", len(creates), 1, body.where())
    params = endpoint_params(body)
    for e in creates:
        cls = tag_value_class(e.val)
        k = vkey(e.x)
        kk = strip_load(k) if k is not None else None
        detail = {"write": "%s.branch := %s" % (show(e.x, e.body), show(e.val, e.body)),
                  "guards": show_facts(e.facts, e.body)}
        if cls != {"static"} or kk not in params:
            R.bad("GC7", "GC7/Sodg::add/tag-write-shape", e.where(),
                  "add() writes something other than tag 1 on the vertex named by its parameter", detail)
            continue
        if "a" in part:
            g = None
            for f in e.facts:
                if f[0] == "in" and f[2] == frozenset([0]) and is_tag_of(f[1], e.x) and pre_state(f[1], body, creates):
                    g = f
            if g is None:
                R.bad("GC7", "GC7/Sodg::add/tag-write-unguarded", e.where(),
                      "add() sets the group tag to 1 even when the vertex is present: a grouped vertex silently leaves "
                      "its group (it then survives the group's collection, and its unread datum is counted against the "
                      "wrong slot)", detail)
            else:
                R.ok("GC7", e.where(), "add() creates only when the slot is absent (pre-state tag ∈ {0})", detail)
        if "b" in part:
            # blanking co-occurs with creation, or with removal in data()
            need = {"pers": False, "data": False, "edges": False}
            for o in evs:
                if strip_sites(getattr(o, "x", None) if "x" in o.d else None) != strip_sites(e.x):
                    continue
                if not ev_cooccur(o, e):
                    # data and read status may be reset only "if there is anything to reset": a slot whose read status is Empty
                    # holds blank data already (data is written by put(), which sets Stored, and by this very reset)
                    if (o.kind == "pers_write" and variant_of(o.val) == "Empty") or (o.kind == "data_write" and is_empty_hex(o.val)):
                        own = [f for f in o.conditions() if strip_sites(f) not in {strip_sites(g) for g in e.facts}]
                        if len(own) == 1 and own[0][0] == "in" and own[0][2] == frozenset(["Stored", "Taken"]) and \
                                is_pers_discr_of(own[0][1], e.x) and ev_dominates(e, o) and \
                                pers_fact_is_prestate(own[0], o.body, [w for w in evs if w.kind == "pers_write"]):
                            need["pers" if o.kind == "pers_write" else "data"] = True
                    continue
                if o.kind == "pers_write" and variant_of(o.val) == "Empty":
                    need["pers"] = True
                if o.kind == "data_write" and is_empty_hex(o.val):
                    need["data"] = True
                if o.kind == "edges_write" and is_new_edges(o.val):
                    need["edges"] = True
                if o.kind == "edges_call" and o.op == "clear":
                    need["edges"] = True
            if not all(need.values()):
                # alternative idiom: blanked when removed
                devs = c.ev["data"]
                rem = [r for r in devs if r.kind == "tag_write" and "none" in tag_value_class(r.val)]
                alt = {"pers": False, "data": False, "edges": False}
                for r in rem:
                    for o in devs:
                        if "x" not in o.d or strip_sites(o.x) != strip_sites(r.x) or not ev_cooccur(o, r):
                            continue
                        if o.kind == "pers_write" and variant_of(o.val) == "Empty":
                            alt["pers"] = True
                        if o.kind == "data_write" and is_empty_hex(o.val):
                            alt["data"] = True
                        if (o.kind == "edges_write" and is_new_edges(o.val)) or (o.kind == "edges_call" and o.op == "clear"):
                            alt["edges"] = True
                # the blanking done at removal must not be undone later in the same call (e.g. the reader,
                # itself a member, marked Taken after the loop)
                kinds = {"pers": ("pers_write",), "data": ("data_write",), "edges": ("edges_write", "edges_call")}
                for k2 in alt:
                    if not alt[k2]:
                        continue
                    for r in rem:
                        for o in devs:
                            if o.kind in kinds[k2] and o.body is r.body and not ev_cooccur(o, r) and r.body.reaches(r.site, o.site) \
                                    and not (o.kind == "pers_write" and variant_of(o.val) == "Empty") and not (o.kind == "data_write" and is_empty_hex(o.val)):
                                alt[k2] = False
                for k2 in need:
                    need[k2] = need[k2] or alt[k2]
            missing = sorted(k2 for k2, v in need.items() if not v)
            if missing:
                R.bad("GC7", "GC7/Sodg::add/no-blanking", e.where(),
                      "a recycled slot is not reset: a vertex created under a collected id keeps the old vertex's %s"
                      % ", ".join({"pers": "read status", "data": "data", "edges": "edges"}[m] for m in missing),
                      detail)
            else:
                R.ok("GC7", e.where(), "creation blanks edges, data and read status", detail)
    if "c" in part:
        # add() of an absent id below the capacity completes: no always-compiled assertion other than the documented preconditions
        # (the slot exists / the id is below the capacity).  A slot left behind by a collection can hold any read status.
        for f, bi in body.compiled_assertions():
            if is_documented_precondition(body, f) or (f[0] == "bool" and strip_load(f[1])[0] == "ovf"):
                continue
            # "a vacant slot holds no unread datum" is what counter exactness (GC4) gives: a group dies only when none of its members
            # is Stored, and an ungrouped vertex is never removed
            if f[0] == "in" and f[2] == frozenset(["Empty", "Taken"]) and is_pers_discr_of(f[1]):
                continue
            # facts of the guard `tag == 0 else return` are not assertions (the other outcome returns)
            R.bad("GC7", "GC7/Sodg::add/may-panic-on-absent-id", body.where((bi, 0)),
                  "add() asserts something about the vacant slot (%s): re-creating a collected id can panic instead of giving a blank vertex"
                  % show(f, body)[:160])
    if "a" in part:
        # the present path has no state event
        for o in evs:
            if not any(f[0] == "in" and f[2] == frozenset([0]) and is_tag_of(f[1]) for f in o.facts):
                if o.kind == "tag_write":
                    continue  # reported above
                R.bad("GC7", "GC7/Sodg::add/effect-on-present-vertex/%s" % o.kind, o.where(),
                      "add() changes a vertex that is already present (%s)" % o.kind,
                      {"guards": show_facts(o.facts, o.body)})


# ---------------------------------------------------------------- GC8 frame
def gc8(F, R):
    c = context(F)
    if not need_mutators(c, R, "GC8"):
        return
    n = 0
    for m in MUTATORS:
        body = c.mut[m]
        params = endpoint_params(body)
        for e in c.ev[m]:
            if e.kind in ("pers_write", "data_write", "edges_write", "edges_call"):
                n += 1
                k = vkey(e.x)
                kk = strip_load(k) if k is not None else None
                if m == "data" and kk is not None and kk[0] == "item":
                    # blanking of a removed member (accepted alternative idiom of GC7): resets only
                    blank = (e.kind == "pers_write" and variant_of(e.val) == "Empty") or (e.kind == "data_write" and is_empty_hex(e.val)) or \
                        (e.kind == "edges_write" and is_new_edges(e.val)) or (e.kind == "edges_call" and e.op == "clear")
                    rem = [r for r in c.ev[m] if r.kind == "tag_write" and "none" in tag_value_class(r.val) and strip_sites(r.x) == strip_sites(e.x)]
                    if blank and rem and all(ev_cooccur(e, r) for r in rem):
                        continue
                if kk not in params:
                    R.bad("GC8", "GC8/Sodg::%s/%s-on-other-vertex" % (m, e.kind), e.where(),
                          "%s() changes edges/data/read status of a vertex other than the one(s) named by its id parameters" % m,
                          {"target": show(e.x, e.body)})
            if m == "data" and e.kind in ("pers_write", "data_write", "edges_write", "edges_call"):
                k = vkey(e.x)
                kk = strip_load(k) if k is not None else None
                if kk is not None and kk[0] == "item":
                    # writes on loop members other than the tag: allowed only as blanking (GC7 alternative idiom)
                    pass
    R.floor("GC8", "edges/data/persistence writes in the four mutators", n, 3)
    R.ok("GC8", "(ops)", "all %d edges/data/persistence writes of the mutators target a vertex named by an id parameter" % n)


# ---------------------------------------------------------------- GC9 slot totality
def gc9(F, R):
    c = context(F)
    n = 0
    for e in c.all:
        if e.kind == "map_call":
            n += 1
            fk = e.fn_key()
            if e.op in ("remove", "clear", "retain", "drain", "pop", "truncate", "take"):
                if e.field == "Sodg::vertices" and nontree_exempt_event(c, e):
                    R.ok("GC9", e.where(), "slot removal in merge()'s non-tree repair path (scoped exemption)")
                    continue
                R.bad("GC9", "GC9/%s/%s-%s" % (fk, e.field.split("::")[1], e.op), e.where(),
                      "a slot is removed from a store: later get(..).unwrap() on it panics and a save/load round trip "
                      "shrinks the store")
    # ... and every id below the capacity has a slot from the start: the constructor builds the vertex table with
    # `with_capacity_some(capacity, blank)`, or with `with_capacity_none(capacity)` filled by a loop over exactly `0..capacity`
    ctor = F.fn("Sodg", "empty")
    if ctor is None:
        R.missing("GC9", "Sodg::empty")
    else:
        R.analysed(ctor)
        vt = None
        for site, kind, st in ctor.sites():
            if kind == "stmt" and st["k"] == "assign" and st["rv"]["k"] == "aggregate" and st["rv"].get("adt") == "Sodg":
                vt = strip_load(dict(ctor.expr_rvalue(st["rv"], site)[3]).get("vertices", ("?",)))
        cap = ("param", 1)
        total = False
        if vt is not None and vt[0] == "call" and vt[1].split("::")[-1] == "with_capacity_some" and vt[2] and strip_load(vt[2][0]) == cap:
            total = True
        elif vt is not None and vt[0] == "call" and vt[1].split("::")[-1] == "with_capacity_none" and vt[2] and strip_load(vt[2][0]) == cap:
            for e2 in Collector(F).collect(ctor):
                if e2.kind == "call" and e2.krate == "emap" and e2.name == "insert" and len(e2.args) >= 3 and \
                        strip_sites(strip_load(e2.args[0])) == strip_sites(vt):
                    key = strip_load(e2.args[1])
                    if key[0] == "item":
                        it = strip_load(key[1])
                        rng = strip_load(it[1]) if it[0] == "iter" else None
                        if rng is not None and rng[0] == "agg" and rng[1] == "Range":
                            f = dict(rng[3])
                            if strip_load(f.get("start")) == ("const", 0) and strip_load(f.get("end")) == cap:
                                total = True
        if total:
            R.ok("GC9", ctor.where(), "the constructor gives every id below the capacity a slot")
        else:
            R.bad("GC9", "GC9/Sodg::empty/vertex-table-not-total", ctor.where(),
                  "the constructor does not provably give every id below the capacity a slot (`with_capacity_some(capacity, blank)`, or a "
                  "fill loop over exactly `0..capacity`): the last id(s) have no slot — add(), bind(), put() on them panic although they are "
                  "within the capacity, and next_id() runs out early", {"vertices": show(vt, ctor)[:200] if vt is not None else None})
    R.note("GC9: %d whole-map operations examined" % n)
    R.ok("GC9", "(crate)", "no slot removal on vertices/stores/branches outside the scoped exemption (%d map operations)" % n)

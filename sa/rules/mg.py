"""C11 / C12: merge — MG1..MG8."""
from core import *
from model import *
import gc_rules as G


class MCtx:
    pass


_C = {}


def mctx(F):
    if id(F) in _C:
        return _C[id(F)]
    c = MCtx()
    c.g = G.context(F)
    c.merge = F.fn("Sodg", "merge")
    c.evs, c.raw, c.col = ([], [], None)
    if c.merge is not None:
        c.evs, c.raw, c.col = state_events(F, c.merge, stop_names=c.g.api)
    # the descent: the recursive private function reachable from merge
    c.rec = None
    reach = G.merge_closure(c.g) if c.merge is not None else set()
    for p in sorted(F.recursive):
        b = F.bodies.get(p)
        if b is not None and b.kind != "Closure" and b.vis != "pub" and p in reach:
            c.rec = b
    _C[id(F)] = c
    return c


def in_exempt(c, e):
    return G.nontree_exempt_event(c.g, e)


def rooted_at(e, root):
    return mentions(e, lambda x: x == root)


def mg1(F, R):
    c = mctx(F)
    if c.merge is None:
        R.missing("MG1", "Sodg::merge")
        return
    R.analysed(c.merge, len(c.raw))
    gparam = ("param", 2)
    if c.merge.locals[2]["ty"] != "&Sodg<N>":
        R.bad("MG1", "MG1/Sodg::merge/right-graph-not-shared-ref", c.merge.where(), "the right graph is not taken by shared reference (%s)" % c.merge.locals[2]["ty"])
    n = 0
    for e in c.raw:
        if e.kind == "write":
            if rooted_at(strip_load(e.loc), gparam) and base_root(e.loc) == gparam:
                R.bad("MG1", "MG1/%s/write-through-right-graph" % e.fn_key(), e.where(), "merge() writes into the right graph", {"loc": show(e.loc, e.body)})
        elif e.kind == "call" and e.args:
            a0 = strip_load(e.args[0])
            if base_root(a0) != gparam:
                continue
            n += 1
            if e.callee.get("local"):
                cb = F.bodies.get(e.path)
                if cb is not None and cb.arg_count >= 1 and cb.locals[1]["ty"].startswith("&mut"):
                    R.bad("MG1", "MG1/%s/mutating-call-on-right-graph/%s" % (e.fn_key(), e.name), e.where(), "merge() calls a mutating method on the right graph")
            elif e.krate in ("emap", "micromap", "microstack"):
                ro = EMAP_READONLY if e.krate == "emap" else MICROMAP_READONLY if e.krate == "micromap" else STACK_READONLY
                if e.name not in ro and not e.callee.get("impl_trait"):
                    R.bad("MG1", "MG1/%s/right-graph-%s" % (e.fn_key(), e.name), e.where(),
                          "merge() reaches mutable access to the right graph's storage (%s::%s; emap hands out &mut from a shared reference)" % (e.krate, e.name))
    R.floor("MG1", "reads of the right graph in merge()", n, 4, c.merge.where())
    R.ok("MG1", c.merge.where(), "nothing is written through the right-graph parameter (%d accesses, all read-only)" % n)


def base_root(e):
    ch = base_chain(e)
    return strip_load(ch[-1]) if ch else None


def mg2(F, R):
    c = mctx(F)
    if c.merge is None:
        R.missing("MG2", "Sodg::merge")
        return
    n = 0
    for e in c.evs:
        if in_exempt(c, e):
            continue
        n += 1
        R.bad("MG2", "MG2/%s/direct-%s" % (fn_key(owner_body(e.body)), e.kind), e.where(),
              "merge() changes graph state directly (%s) instead of through add/bind/put/next_id: the GC state it leaves "
              "behind is not one those calls produce" % e.kind)
    calls = [e for e in c.raw if e.kind == "call" and e.callee.get("local") and e.name in ("add", "bind", "put", "next_id") and not in_exempt(c, e)]
    R.floor("MG2", "add/bind/put/next_id calls in merge()", len(calls), 3, c.merge.where())
    for e in calls:
        if strip_load(e.args[0]) != ("param", 1):
            R.bad("MG2", "MG2/%s/mutator-on-other-graph/%s" % (e.fn_key(), e.name), e.where(), "merge() calls %s on a graph other than the left one" % e.name)
    # no other state-changing API call on either graph: `data()` is a consuming read (it marks the datum read, decrements the
    # group's counter and may collect the group)
    reach = G.merge_closure(c.g)
    for e in c.raw:
        if e.kind != "call" or not e.callee.get("local") or e.name in ("add", "bind", "put", "next_id") or in_exempt(c, e):
            continue
        cb = F.bodies.get(e.path)
        if cb is None or cb.self_adt != "Sodg" or cb.arg_count < 1 or not str(cb.locals[1]["ty"]).startswith("&mut"):
            continue
        if cb.vis != "pub" and e.path in reach:
            continue        # merge's own private helpers (the descent, the repair): analysed as part of merge
        R.bad("MG2", "MG2/%s/other-mutator/%s" % (fn_key(owner_body(e.body)), e.name), e.where(),
              "merge() calls %s(), which changes graph state (a consuming read / another mutation): the merge does more to the graph than "
              "the add/bind/put calls it stands for" % e.name)
    R.ok("MG2", c.merge.where(), "the left graph is changed only through add/bind/put/next_id (%d calls); %d direct state events outside the scoped exemption" % (len(calls), n))


def label_of(e):
    return strip_sites(strip_load(e))


def descent_roles(F, c):
    """(left, right, graph, map) parameter numbers of the descent, as established by mg3456"""
    if getattr(c, "roles", None) is None:
        from report import Report
        mg3456(F, Report("roles"))
    return getattr(c, "roles", None)


def mg3456(F, R):
    c = mctx(F)
    if c.merge is None or c.rec is None:
        R.missing("MG3", "recursive descent of merge()")
        return
    rec = c.rec
    R.analysed(rec)
    col = Collector(F, stop_names=c.g.api, depth=0)
    raw = [e for e in col.collect(rec) if e.body is rec or e.body.parent == rec.path]
    left, right, gp, mp = ("param", 2 + 1), ("param", 3 + 1), ("param", 2), ("param", 5)
    # parameters of the descent by type
    ps = {i: rec.locals[i]["ty"] for i in range(1, rec.arg_count + 1)}
    us = [i for i in ps if ps[i] == "usize"]
    gi = [i for i in ps if ps[i] == "&Sodg<N>"]
    mi = [i for i in ps if "HashMap" in ps[i]]
    if len(us) != 2 or len(gi) != 1 or len(mi) != 1:
        R.bad("MG3", "MG3/Sodg::merge/descent-signature", rec.where(), "cannot establish MG3–MG6: unrecognised signature of the descent %s" % ps)
        return
    left, right, gp, mp = ("param", us[0]), ("param", us[1]), ("param", gi[0]), ("param", mi[0])
    # which of the two ids is the *right* one is read off the code, not off the parameter order: it is the one the other
    # graph is asked about (`g.kids(r)`, `g.vertices.get(r)`)
    asked = set()
    for e in raw:
        if e.kind == "call" and e.args and len(e.args) > 1 and strip_load(e.args[0]) == gp and strip_load(e.args[1]) in (left, right):
            asked.add(strip_load(e.args[1]))
    if asked == {left}:
        left, right = right, left
    elif asked != {right}:
        R.bad("MG3", "MG3/Sodg::merge/descent-signature", rec.where(), "cannot establish MG3–MG6: both or neither id parameter of the descent "
              "is used on the right graph")
        return
    c.roles = (left[1], right[1], gp[1], mp[1])

    def is_kid_none(f, lbl=None):
        if f[0] == "in" and f[2] == frozenset(["None"]):
            ce = strip_load(strip_load(f[1])[1]) if strip_load(f[1])[0] == "discr" else None
            if ce and ce[0] == "call" and ce[1].endswith("::kid") and strip_load(ce[2][0]) == ("param", 1) and strip_load(ce[2][1]) == left:
                return lbl is None or label_of(ce[2][2]) == lbl
        return False

    def is_map_none(f, to=None):
        if f[0] == "in" and f[2] == frozenset(["None"]):
            ce = strip_load(strip_load(f[1])[1]) if strip_load(f[1])[0] == "discr" else None
            if ce and ce[0] == "call" and "HashMap" in ce[1] and ce[1].split("::")[-1] == "get" and strip_load(ce[2][0]) == mp:
                return to is None or label_of(ce[2][1]) == to
        return False
    # ---- MG3
    binds = [e for e in raw if e.kind == "call" and e.name == "bind" and e.callee.get("local") and not in_exempt(c, e)]
    R.floor("MG3", "bind calls in the descent", len(binds), 1, rec.where())
    for e in binds:
        lbl = label_of(e.args[3])
        detail = {"guards": [show(f, e.body) for f in e.facts if "Level" not in repr(f)]}
        if strip_load(e.args[1]) != left:
            R.bad("MG3", "MG3/Sodg::merge/bind-from-other-vertex", e.where(), "the descent binds from a vertex other than the current left vertex", detail)
        elif not any(is_kid_none(f, lbl) for f in e.facts):
            R.bad("MG3", "MG3/Sodg::merge/bind-not-guarded-by-missing-kid", e.where(),
                  "an edge of the left graph can be redirected: bind(left, _, a) is not restricted to the case where left has no "
                  "`a` edge yet (everything g had must still be there)", detail)
        else:
            # the target is a vertex of the *left* graph: the id just obtained from next_id(), or what the right->left table holds
            # for the right edge's target — never a right-graph id as such
            tgt = strip_load(e.args[2])
            from_fresh = mentions(tgt, lambda y: y[0] == "call" and y[1].endswith("::next_id"))
            from_table = mentions(tgt, lambda y: y[0] == "call" and "HashMap" in y[1] and y[1].split("::")[-1] in ("get", "get_mut", "index") and
                                  strip_load(y[2][0]) == mp)
            if not (from_fresh or from_table):
                R.bad("MG3", "MG3/Sodg::merge/bind-target-not-a-left-vertex", e.where(),
                      "the descent binds to something that is neither a fresh id nor the left vertex recorded for the right target (%s): "
                      "a right-graph id is used in the left graph" % show(tgt, e.body)[:100], detail)
            else:
                R.ok("MG3", e.where(), "bind(left, fresh-or-mapped, a) only where kid(left, a) is None", detail)
    # ---- MG4
    nids = [e for e in raw if e.kind == "call" and e.name == "next_id" and e.callee.get("local")]
    R.floor("MG4", "next_id calls in the descent", len(nids), 1, rec.where())
    for e in nids:
        detail = {"guards": [show(f, e.body) for f in e.facts if "Level" not in repr(f)]}
        k = any(is_kid_none(f) for f in e.facts)
        m = any(is_map_none(f) for f in e.facts)
        idx = ("call", e.path, tuple(e.args), e.site[0])
        adds = [a for a in raw if a.kind == "call" and a.name == "add" and a.callee.get("local") and strip_sites(strip_load(a.args[1])) == strip_sites(idx)]
        bnds = [a for a in binds if strip_sites(strip_load(a.args[2])) == strip_sites(idx)]
        if not (k and m):
            R.bad("MG4", "MG4/Sodg::merge/new-vertex-not-only-when-missing", e.where(),
                  "a new vertex is created although the left graph already has a target for this path (kid(left,a) or an "
                  "already mapped right vertex): more than one new vertex per missing path, or duplicates", detail)
        elif not adds or not bnds or not all(e.body.cooccur(e.site, a.site) for a in adds + bnds):
            R.bad("MG4", "MG4/Sodg::merge/new-vertex-not-added-and-bound", e.where(),
                  "the fresh id is not added and bound under the right vertex's label on the same paths", detail)
        else:
            # and the label / descent target are those of the edge being walked
            R.ok("MG4", e.where(), "new vertex exactly when neither kid(left,a) nor the map has a target: next_id → add(id) → bind(left, id, a)", detail)
    # ---- MG4 (every creation): a vertex is created in the left graph only under a fresh id — or "created" where it is present
    # already (add(left): the left root, a documented no-op).  An id of the *right* graph is not an id of the left one.
    def _adds(body, events, left_here):
        for a in events:
            if not (a.kind == "call" and a.name == "add" and a.callee.get("local") and len(a.args) > 1):
                continue
            tgt = strip_load(a.args[1])
            fresh = mentions(tgt, lambda y: y[0] == "call" and y[1].endswith("::next_id"))
            if fresh or (left_here is not None and tgt == left_here):
                R.ok("MG4", a.where(), "add() of a fresh id / of the left vertex itself")
            else:
                R.bad("MG4", "MG4/Sodg::merge/add-target-not-a-fresh-id", a.where(),
                      "merge() creates a vertex of the left graph under an id that is neither fresh (next_id) nor the left vertex "
                      "itself (%s): an id of the right graph is used as an id of the left one — a stray vertex appears, or a present "
                      "one is taken for new" % show(tgt, a.body)[:80])
    _adds(rec, raw, left)
    mb = c.merge
    if mb is not rec:
        mraw = [e for e in Collector(F, stop_names=c.g.api, depth=0).collect(mb) if e.body is mb or e.body.parent == mb.path]
        left_m = None
        for e in mraw:
            if e.kind == "call" and e.path == rec.path and len(e.args) >= left[1]:
                left_m = strip_load(e.args[left[1] - 1])
        _adds(mb, mraw, left_m)
    # ---- MG5
    puts = [e for e in raw if e.kind == "call" and e.name == "put" and e.callee.get("local")]
    R.floor("MG5", "put calls in the descent", len(puts), 1, rec.where())
    for e in puts:
        d = strip_load(e.args[2])
        okd = d[0] == "field" and d[2] == "Vertex::data"
        vx = vertex_of(d[1]) if okd else None
        okd = okd and vx is not None and strip_load(vx[0]) == gp and strip_load(vx[1]) == right
        g = None
        for f in e.facts:
            if f[0] in ("in", "notin") and is_pers_discr_of(f[1]):
                inner = strip_load(strip_load(f[1])[1])
                v2 = vertex_of(inner[1])
                if v2 is not None and strip_load(v2[0]) == gp and strip_load(v2[1]) == right:
                    if (f[0] == "notin" and f[2] == frozenset(["Empty"])) or (f[0] == "in" and f[2] == frozenset(["Stored", "Taken"])):
                        g = f
        detail = {"data": show(d, e.body), "guards": [show(f, e.body) for f in e.facts if "Level" not in repr(f)]}
        if strip_load(e.args[1]) != left or not okd:
            R.bad("MG5", "MG5/Sodg::merge/put-shape", e.where(), "the datum put on the left vertex is not the right vertex's datum", detail)
        elif g is None:
            R.bad("MG5", "MG5/Sodg::merge/put-not-guarded-by-has-data", e.where(),
                  "the right vertex's data field is copied without (exactly) testing that the right vertex has data: an empty "
                  "datum overwrites the left one, or read data is not carried over", detail)
        else:
            # ... and under no other condition (the guards of the descent itself — "right not visited yet" — aside)
            def own(f):
                if f is g or "Level" in repr(f):
                    return False
                if f[0] in ("in", "notin") and is_pers_discr_of(f[1]):
                    return False
                if mentions(f, lambda x: x == mp) or (f[0] == "in" and strip_load(f[1])[0] == "discr" and
                                                      strip_load(strip_load(f[1])[1])[0] in ("next", "opt")):
                    return False
                return True
            extra = [f for f in e.conditions() if own(f)]
            if extra:
                R.bad("MG5", "MG5/Sodg::merge/put-extra-condition", e.where(),
                      "the right vertex's datum is carried over only under an additional condition (%s): a datum of the right graph is "
                      "not stored (again) on the left, so it is not counted as unread there" % [show(f, e.body)[:120] for f in extra], detail)
            else:
                R.ok("MG5", e.where(), "put(left, data of right) iff right has data", detail)
    # ---- MG6
    # every kid of the right vertex is visited: the walks over kids(right) are not left early
    for e in raw:
        if e.kind == "call" and e.callee.get("decl") == "std::iter::Iterator::next" and e.body is rec and e.args and \
                mentions(e.args[0], lambda x: x[0] == "call" and x[1].endswith("::kids")):
            try:
                br = rec.early_exits(e.site[0])
            except Exception:
                br = []
            if br:
                R.bad("MG6", "MG6/Sodg::merge/kids-walk-stops-early", e.where(),
                      "the walk over the kids of the right vertex can be left before the last kid (break / early return): part of the "
                      "right tree is not grafted")
    recs = [e for e in raw if e.kind == "call" and e.path == rec.path]   # in the body or in a closure it hands to an adaptor
    R.floor("MG6", "recursive calls of the descent", len(recs), 1, rec.where())
    # right ↦ left recorded: map.insert(right, left), or entry(right) matched Vacant and filled with left
    okmark = []
    for e in raw:
        if e.kind != "call" or e.name != "insert":
            continue
        if "HashMap" in e.path and len(e.args) == 3 and strip_load(e.args[0]) == mp and strip_load(e.args[1]) == right and strip_load(e.args[2]) == left:
            okmark.append((e, "insert"))
        if "VacantEntry" in e.path and len(e.args) == 2 and strip_load(e.args[1]) == left:
            ent = [x for x in walk(e.args[0]) if x[0] == "call" and x[1].split("::")[-1] == "entry" and "HashMap" in x[1]]
            if ent and strip_load(ent[0][2][0]) == mp and strip_load(ent[0][2][1]) == right:
                okmark.append((e, "entry"))
    if not okmark:
        R.bad("MG6", "MG6/Sodg::merge/right-not-marked", rec.where(), "the descent does not record right ↦ left in the map: completeness check and cycle cut are void")

    def unvisited(f):
        """fact: `right` is not in the map yet"""
        if f[0] == "bool" and f[2] is False:
            ce = strip_load(f[1])
            return ce[0] == "call" and ce[1].split("::")[-1] == "contains_key" and strip_load(ce[2][0]) == mp and strip_load(ce[2][1]) == right
        if f[0] == "in" and strip_load(f[1])[0] == "discr":
            ce = strip_load(strip_load(f[1])[1])
            if ce[0] == "call" and "HashMap" in ce[1] and strip_load(ce[2][0]) == mp and strip_load(ce[2][1]) == right:
                if ce[1].split("::")[-1] == "get" and f[2] == frozenset(["None"]):
                    return True
                if ce[1].split("::")[-1] == "entry" and f[2] == frozenset(["Vacant"]):
                    return True
        return False
    for m, how in okmark:
        if not any(unvisited(f) for f in m.facts):
            R.bad("MG6", "MG6/Sodg::merge/mark-not-guarded-by-unvisited", m.where(), "a right vertex already mapped is mapped again (its first mapping is overwritten)")
    okmark = [m for m, how in okmark]
    for e in recs:
        args = [strip_load(a) for a in e.args]
        # (self, g, matched, to, mapped) in declaration order
        vals = {("param", i + 1): a for i, a in enumerate(args)}
        to = vals.get(right)
        mt = vals.get(left)
        ok_to = to is not None and to[0] == "field" and to[2] == "(tuple)::1" and strip_load(to[1])[0] == "item" and \
            mentions(to, lambda x: x[0] == "call" and x[1].endswith("::kids") and strip_load(x[2][0]) == gp and strip_load(x[2][1]) == right)
        parts = list(mt[1]) if mt is not None and mt[0] == "phi" else [mt]
        ok_m = mt is not None and all(p is not None and (mentions(p, lambda x: x[0] == "call" and (x[1].endswith("::kid") or x[1].endswith("::next_id") or
                                      ("HashMap" in x[1] and x[1].split("::")[-1] == "get")))) for p in parts)
        dom = any(ev_dominates(m, e) or (m.body is e.body and m.body.dominates(m.site, e.site)) or
                  (e.chain and m.body is e.chain[-1][0] and m.body.dominates(m.site, e.chain[-1][1])) for m in okmark)
        detail = {"matched": show(mt, e.body) if mt else None, "to": show(to, e.body) if to else None}
        if vals.get(gp) != gp or vals.get(mp) != mp or vals.get(("param", 1)) != ("param", 1):
            R.bad("MG6", "MG6/Sodg::merge/descent-args", e.where(), "the descent does not pass on the same graphs and map", detail)
        elif not ok_to or not ok_m:
            R.bad("MG6", "MG6/Sodg::merge/descent-target", e.where(),
                  "the descent does not continue on (the left vertex matched for this edge, the right edge's target)", detail)
        elif not dom:
            R.bad("MG6", "MG6/Sodg::merge/descent-before-mark", e.where(), "the descent recurses before recording right ↦ left: a cyclic right graph recurses forever")
        else:
            R.ok("MG6", e.where(), "descent on (matched, to) after marking right in the map", detail)


def mg78(F, R):
    c = mctx(F)
    m = c.merge
    if m is None or c.rec is None:
        R.missing("MG7", "Sodg::merge and its descent")
        return
    R.analysed(m, sum(1 for _ in m.sites()))
    # the descent call and the map handed to it
    rc = [(s, t) for s, t in m.calls() if t["callee"].get("path") == c.rec.path]
    if len(rc) != 1:
        R.bad("MG7", "MG7/Sodg::merge/descent-calls", m.where(), "cannot establish MG7: %d top-level descent calls" % len(rc))
        return
    rsite, rt = rc[0]
    rargs = [strip_load(deref_addr(m, a)) for a in m.call_args(rt, rsite)]
    mapx = [a for a in rargs if a[0] == "call" and "HashMap" in a[1]]
    if len(mapx) != 1:
        R.bad("MG7", "MG7/Sodg::merge/map-arg", m.where(rsite), "cannot establish MG7: the map handed to the descent is not a fresh HashMap")
        return
    mapx = mapx[0]
    gp = ("param", 2)
    roles = descent_roles(F, c)
    started = roles is not None and len(rargs) >= max(roles) and rargs[roles[0] - 1] == ("param", 3) and rargs[roles[1] - 1] == ("param", 4) and \
        rargs[roles[2] - 1] == gp
    if not started:
        R.bad("MG7", "MG7/Sodg::merge/descent-start", m.where(rsite), "the descent is not started on (right graph, left, right) as given")
    oks, errs = [], []
    for d in m.defs().get(0, []):
        site = (d[0], d[1])
        e = m.expr_rvalue(d[3], site) if d[2] == "assign" else m.expr_call(d[3], site)
        if e[0] == "agg" and e[2] == "Ok":
            oks.append((site, e))
        elif e[0] == "agg" and e[2] == "Err":
            errs.append((site, e))
        elif e[0] == "call" and e[1].split("::")[-1] == "from_residual":
            pass
        else:
            R.bad("MG7", "MG7/Sodg::merge/result-shape", m.where(site), "cannot establish MG7: unrecognised result", {"value": show(e, m)})
    R.floor("MG7", "Ok(()) results of merge()", len(oks), 1, m.where())

    def is_map_len(x):
        x = strip_load(x)
        return x[0] == "call" and "HashMap" in x[1] and x[1].split("::")[-1] == "len" and strip_sites(strip_load(x[2][0])) == strip_sites(mapx)

    def is_right_count(x):
        x = strip_load(x)
        if x[0] == "call" and x[1].endswith("Sodg<N>>::len") and strip_load(x[2][0]) == gp:
            return True
        if x[0] == "call" and x[1].split("::")[-1] == "len" and mentions(x[2][0], lambda y: y[0] == "call" and y[1].endswith("::keys") and strip_load(y[2][0]) == gp):
            return True
        return False
    def plain_keys_source(x):
        """x iterates keys(right graph) itself, in its order, item by item: only item-keeping adaptors on the way (an `enumerate`,
        `zip` or `map` in front of the filter makes the closure see something else than the vertex id — a position, say)"""
        x = strip_load(x)
        for _ in range(8):
            if x[0] == "adapt" and x[1] in ("copied", "cloned", "filter", "inspect", "peekable"):
                x = strip_load(x[2])
                continue
            break
        return x[0] == "iter" and x[2] in ("iter", "into_iter") and strip_load(x[1])[0] == "call" and \
            strip_load(x[1])[1].endswith("::keys") and strip_load(x[1])[2] and strip_load(strip_load(x[1])[2][0]) == gp

    def arg_is_the_item(a):
        return mentions(a, lambda y: y == ("param", 2)) and not mentions(a, lambda y: y[0] == "field" and "(tuple)" in str(y[2]))

    def is_unmapped_list(x):
        """x is (collected from) keys(right graph) filtered by `!mapped.contains_key(v)` (and, redundantly, `v != right`: the root is
        the first vertex the descent maps)"""
        for fx in [y for y in walk(x) if y[0] == "adapt" and y[1] == "filter"]:
            try:
                if not mentions(fx[2], lambda y: y[0] == "call" and y[1].endswith("::keys") and y[2] and strip_load(y[2][0]) == gp):
                    continue
                if not plain_keys_source(fx[2]):
                    continue
                clo = strip_load(fx[3][0])
                cb = F.bodies.get(clo[1]) if clo[0] == "closure" else None
                summ = pred_summary(cb) if cb is not None else []
                if len(summ) != 1:
                    continue
                mapping = {}
                for ui, uop in enumerate(clo[2]):
                    mapping[("upvar", ui)] = m.expr_local(uop[1], uop[2]) if uop[0] == "addr" else uop
                has_unmapped, other = False, False
                for f in summ[0]:
                    if "Level" in repr(f):
                        continue
                    ce = strip_load(f[1]) if f[0] == "bool" else None
                    if ce is not None and f[2] is False and ce[0] == "call" and ce[1].split("::")[-1] == "contains_key" and len(ce[2]) == 2 and \
                            strip_sites(strip_load(unload(subst(ce[2][0], mapping)))) == strip_sites(mapx) and arg_is_the_item(ce[2][1]):
                        has_unmapped = True
                        continue
                    g2 = unload(subst(f, mapping))
                    if g2[0] in ("cmp", "notin") and mentions(g2, lambda y: y == ("param", 2)):
                        # `v != right` only
                        rest = [strip_load(y) for y in (g2[2:4] if g2[0] == "cmp" else (g2[1],))]
                        if g2[0] == "cmp" and g2[1] == "!=" and any(strip_load(unload(y)) == ("param", 4) or y == ("param", 4) for y in rest):
                            continue
                    other = True
                if has_unmapped and not other:
                    return True
            except Exception:
                continue
        return False

    def is_empty_unmapped(f, truth):
        """fact: `<unmapped list>.is_empty()` has the given truth value (or its len compared with 0)"""
        if f[0] == "bool" and f[2] is truth:
            ce = strip_load(f[1])
            return ce[0] == "call" and ce[1].split("::")[-1] == "is_empty" and ce[2] and is_unmapped_list(ce[2][0])
        if f[0] in ("in", "notin") and f[2] == frozenset([0]) and (f[0] == "in") == truth:
            ce = strip_load(f[1])
            return ce[0] == "call" and ce[1].split("::")[-1] == "len" and ce[2] and is_unmapped_list(ce[2][0])
        return False
    eqfact = None
    for site, e in oks:
        facts = m.facts_at(site)
        t = any(f[0] == "in" and f[2] == frozenset(["Continue"]) and mentions(f[1], lambda y: y[0] == "call" and y[1] == c.rec.path) for f in facts)
        q = None
        for f in facts:
            if f[0] == "cmp" and f[1] == "==" and ((is_map_len(f[2]) and is_right_count(f[3])) or (is_map_len(f[3]) and is_right_count(f[2]))):
                q = f
            elif is_empty_unmapped(f, True):
                q = f           # no present vertex of the right graph is unmapped: the same completeness test, on the list itself
        detail = {"guards": [show(f, m) for f in facts if "Level" not in repr(f)]}
        if not t:
            R.bad("MG7", "MG7/Sodg::merge/ok-despite-failed-descent", m.where(site), "merge() can return Ok although the descent failed", detail)
        elif q is None:
            R.bad("MG7", "MG7/Sodg::merge/ok-not-guarded-by-completeness", m.where(site),
                  "merge() returns Ok without the number of mapped right vertices being equal to the number of present vertices of the "
                  "right graph: a detached part of the right graph is dropped silently", detail)
        else:
            eqfact = q
            R.ok("MG7", m.where(site), "Ok(()) only after the descent succeeded and |mapped| == |present vertices of the right graph|", detail)
    # MG8: where the error for an incomplete mapping is built (in merge itself or in a helper inlined into it)
    if not errs:
        for site, kind, st in m.sites():
            if kind == "stmt" and st["k"] == "assign" and st["rv"]["k"] == "aggregate" and st["rv"].get("adt") == "Result" and st["rv"].get("variant") == "Err":
                errs.append((site, m.expr_rvalue(st["rv"], site)))
    if not errs:
        R.bad("MG8", "MG8/Sodg::merge/no-error-result", m.where(), "merge() has no Err result for an incomplete mapping")
    for site, e in errs:
        facts = m.facts_at(site)
        ne = any(f[0] == "cmp" and f[1] == "!=" and ((is_map_len(f[2]) and is_right_count(f[3])) or (is_map_len(f[3]) and is_right_count(f[2]))) for f in facts)
        ne = ne or any(is_empty_unmapped(f, False) for f in facts)
        pay = dict(e[3])["0"]
        diff = [x for x in walk(pay) if x[0] == "call" and (x[1].endswith("::sub") or x[1].split("::")[-1] == "difference") and "HashSet" in x[1]]
        okdiff = False
        for dx in diff:
            a, b2 = dx[2][0], dx[2][1]
            lhs_right = mentions(a, lambda y: y[0] == "call" and y[1].endswith("::keys") and y[2] and strip_load(y[2][0]) == gp)
            rhs_map = mentions(b2, lambda y: y[0] == "iter" and y[2] in ("keys", "into_keys") and strip_sites(strip_load(y[1])) == strip_sites(mapx))
            if lhs_right and rhs_map:
                okdiff = True
        sorts = [(s, t) for s, t in m.calls() if t["callee"].get("name") in ("sort", "sort_unstable", "sorted", "sort_by_key") and m.dominates(s, site)]
        # alternative: the missed ids are collected by a loop over keys(right) (ascending) keeping those not in the map
        if not okdiff:
            raw_m = Collector(F, stop_names=c.g.api).collect(m)
            for p in raw_m:
                if p.kind == "call" and p.name == "push" and p.body is m and len(p.args) == 2 and m.reaches(p.site, site):
                    it = [x for x in walk(p.args[1]) if x[0] == "item"]
                    from_right = it and mentions(it[0][1], lambda y: y[0] == "call" and y[1].endswith("::keys") and y[2] and strip_load(y[2][0]) == gp)
                    not_mapped = any(f[0] == "bool" and f[2] is False and strip_load(f[1])[0] == "call" and
                                     strip_load(f[1])[1].split("::")[-1] == "contains_key" and
                                     strip_sites(strip_load(strip_load(f[1])[2][0])) == strip_sites(mapx) and
                                     it and strip_sites(unload(strip_load(f[1])[2][1])) == strip_sites(unload(p.args[1]))
                                     for f in p.facts)
                    extra = [f for f in p.facts if "contains_key" not in repr(f) and not (f[0] == "in" and strip_load(f[1])[0] == "discr")
                             and not (f[0] == "cmp" and f[1] == "!=") and "Level" not in repr(f)]
                    if from_right and not_mapped and not extra and mentions(pay, lambda y: strip_sites(y) == strip_sites(strip_load(p.args[0]))):
                        okdiff = True
                        sorts = sorts or [("keys() of the right graph is ascending", None)]
        if not okdiff and is_unmapped_list(pay):
            okdiff = True
        # alternative: keys(right) passed through `filter(|v| !<mapped right ids>.contains(v))`
        if not okdiff:
            for fx in [x for x in walk(pay) if x[0] == "adapt" and x[1] == "filter"]:
                try:
                    src_right = mentions(fx[2], lambda y: y[0] == "call" and y[1].endswith("::keys") and y[2] and strip_load(y[2][0]) == gp)
                    clo = strip_load(fx[3][0])
                    cb = F.bodies.get(clo[1]) if clo[0] == "closure" else None
                    summ = pred_summary(cb) if cb is not None else []
                    if not src_right or len(summ) != 1:
                        continue
                    mapping = {}
                    for ui, uop in enumerate(clo[2]):
                        mapping[("upvar", ui)] = m.expr_local(uop[1], uop[2]) if uop[0] == "addr" else uop
                    conj = [f for f in summ[0] if "Level" not in repr(f)]
                    if len(conj) != 1:
                        continue
                    f = conj[0]
                    ce = strip_load(f[1]) if f[0] == "bool" else None
                    if ce is None or f[2] is not False or ce[0] != "call" or ce[1].split("::")[-1] not in ("contains", "contains_key") or len(ce[2]) != 2:
                        continue
                    recv = unload(subst(ce[2][0], mapping))
                    arg_is_item = arg_is_the_item(ce[2][1]) and plain_keys_source(fx[2])
                    of_map = strip_sites(strip_load(recv)) == strip_sites(mapx) or \
                        (mentions(recv, lambda y: y[0] == "iter" and y[2] in ("keys", "into_keys") and strip_sites(strip_load(y[1])) == strip_sites(mapx)) and
                         not mentions(recv, lambda y: y[0] == "iter" and y[2] in ("values", "values_mut", "into_values")))
                    if arg_is_item and of_map:
                        okdiff = True
                        # keys() of the right graph is ascending and a filter keeps the order — unless a hash container sits between
                        # keys() and the text
                        if not mentions(pay, lambda y: y[0] == "call" and ("HashSet" in y[1] or "BTreeSet" in y[1] or "::drain" in y[1])):
                            sorts = sorts or [("keys() of the right graph is ascending, filter keeps the order", None)]
                except Exception:
                    continue
        if okdiff and not sorts:
            # the list is keys(right) — ascending — passed through order-keeping adaptors only, with no hash container between it and
            # the text
            fl = [x for x in walk(pay) if x[0] == "adapt" and x[1] == "filter" and plain_keys_source(x[2])]
            if fl and not mentions(pay, lambda y: y[0] == "call" and ("HashSet" in y[1] or "BTreeSet" in y[1] or "::drain" in y[1])):
                sorts = [("keys() of the right graph is ascending, filter keeps the order", None)]
        detail = {"guards": [show(f, m) for f in facts if "Level" not in repr(f)]}
        if not ne:
            R.bad("MG8", "MG8/Sodg::merge/err-not-on-incomplete-edge", m.where(site), "the Err result is not the other edge of the completeness test", detail)
        elif not okdiff:
            R.bad("MG8", "MG8/Sodg::merge/missed-list-not-the-difference", m.where(site),
                  "the error does not name the vertices missed (present vertices of the right graph minus mapped ones)", detail)
        elif not sorts:
            R.bad("MG8", "MG8/Sodg::merge/missed-list-unsorted", m.where(site), "the list of missed vertices is printed in hash order (not deterministic)", detail)
        else:
            R.ok("MG8", m.where(site), "Err names keys(right) − mapped.keys(), sorted", detail)

"""C14: Script::deploy_to — SC1..SC4.  Private helpers (commands, deploy_one, parse, parse_data, or whatever they are
called after a refactoring) are physically inlined into deploy_to; nothing here depends on their names."""
from core import *
from model import *
import gc_rules as G

# command -> (graph call, [(conversion kind, text argument position)])
TABLE = {"ADD": ("add", [("id", 0)]),
         "BIND": ("bind", [("id", 0), ("id", 1), ("label", 2)]),
         "PUT": ("put", [("id", 0), ("data", 1)])}


class SCtx:
    pass


_C = {}


def sctx(F):
    if id(F) in _C:
        return _C[id(F)]
    c = SCtx()
    c.root = F.fn("Script", "deploy_to")
    c.raw = []
    c.muts = []
    if c.root is not None:
        c.raw = Collector(F, stop_names=G.api_names(F)).collect(c.root)
        for e in c.raw:
            if e.kind == "call" and e.callee.get("local"):
                cb = F.bodies.get(e.path)
                if cb is not None and cb.self_adt == "Sodg" and cb.arg_count >= 1 and cb.locals[1]["ty"].startswith("&mut"):
                    c.muts.append(e)
    _C[id(F)] = c
    return c


def positions(e):
    """text-argument positions an expression is taken from: first()/get(k)/[k] of the argument vector"""
    out = set()
    for x in walk(e):
        if x[0] == "call":
            n = x[1].split("::")[-1]
            if n == "first" and mentions(x[2][0], is_arg_vector):
                out.add(0)
            elif n in ("get", "index") and len(x[2]) > 1 and strip_load(x[2][1])[0] == "const" and mentions(x[2][0], is_arg_vector):
                out.add(strip_load(x[2][1])[1])
        if x[0] == "elem" and strip_load(x[2])[0] == "const" and mentions(x[1], is_arg_vector):
            out.add(strip_load(x[2])[1])
    return out


def is_arg_vector(x):
    """the list of a command's arguments: pieces of capture 2 of the command, cut at ','"""
    return x[0] == "iter" and x[2] == "split" and len(x) > 3 and strip_load(x[3][0]) == ("const", ord(",")) and \
        mentions(x[1], lambda y: y[0] == "call" and y[1].split("::")[-1] == "captures")


def conversion_ok(kind, e):
    if kind == "id":
        num = mentions(e, lambda x: x[0] == "call" and ("usize" in x[1] or "str>::parse" in x[1]) and x[1].split("::")[-1] in ("from_str", "parse", "from_str_radix"))
        var = mentions(e, lambda x: x[0] == "call" and x[1].split("::")[-1] in ("or_insert_with", "next_id", "or_insert", "get", "entry"))
        return num or var
    if kind == "label":
        return mentions(e, lambda x: x[0] == "call" and "Label" in x[1] and x[1].split("::")[-1] in ("from_str", "parse")) or \
            mentions(e, lambda x: x[0] == "call" and x[1].endswith("str>::parse"))
    if kind == "data":
        return mentions(e, lambda x: x[0] == "call" and "Hex" in x[1] and x[1].split("::")[-1] in ("from_vec", "from_slice", "from_str"))
    return False


TEXT_ALTERING = {"trim_start_matches", "trim_end_matches", "trim_matches", "trim_left_matches", "trim_right_matches", "trim_start",
                 "trim_end", "trim_left", "trim_right", "trim", "to_lowercase", "to_uppercase", "to_ascii_lowercase", "to_ascii_uppercase",
                 "replace", "replacen", "replace_all", "strip_suffix", "trim_ascii", "trim_ascii_start", "trim_ascii_end", "truncate",
                 "split_off", "rsplit", "rsplitn", "splitn", "split_once", "rsplit_once", "repeat"}


def walk_arg(e, depth=0):
    """sub-expressions of an identifier's text, not descending below the point where the single argument is taken out of the
    command's argument list (an element / item / first() / captures group)"""
    if not isinstance(e, tuple) or not e or isinstance(e, frozenset) or depth > 40:
        return
    if isinstance(e[0], str):
        yield e
        if e[0] in ("elem", "item", "next") or (e[0] == "call" and e[1].split("::")[-1] in ("first", "last", "get", "nth", "index", "captures", "pop", "remove")):
            return
    for x in e:
        if isinstance(x, tuple):
            yield from walk_arg(x, depth + 1)


def sc5(F, R):
    """the text is taken as written: Script::from_str stores exactly the string it is given, and an identifier loses exactly its
    one sigil (`$x`, `ν7`), nothing else"""
    ctor = None
    for b in F.all_bodies():
        if b.self_adt == "Script" and b.name == "from_str" and b.kind != "Closure":
            ctor = b
    if ctor is None:
        R.missing("SC5", "Script::from_str")
    else:
        R.analysed(ctor)
        n = 0
        for site, kind, st in ctor.sites():
            if kind == "stmt" and st["k"] == "assign" and st["rv"]["k"] == "aggregate" and st["rv"].get("adt") == "Script":
                n += 1
                txt = dict(ctor.expr_rvalue(st["rv"], site)[3]).get("txt")
                names = [x[1].split("::")[-1] for x in walk(txt) if x[0] == "call"] if txt is not None else ["?"]
                # leading white space of the whole script is dropped by the command splitter anyway (every command is trimmed, and a
                # comment needs its `#`); the *end* of the text is different: the line end of a final comment is what ends it
                bad = [x for x in names if x in TEXT_ALTERING and x != "trim_start"]
                from_param = txt is not None and mentions(txt, lambda x: x[0] == "param")
                if bad or not from_param:
                    R.bad("SC5", "SC5/Script::from_str/text-altered", ctor.where(site),
                          "the script does not keep exactly the text it was given (%s): what is executed is not what was written "
                          "(e.g. a final comment line loses its line end and is no longer recognised)" % (bad or "not the parameter"),
                          {"txt": show(txt, ctor)[:200] if txt is not None else None})
                else:
                    R.ok("SC5", ctor.where(site), "Script::from_str stores the given text unchanged")
        R.floor("SC5", "constructions of Script in from_str", n, 1, ctor.where())
    c = sctx(F)
    if c.root is None:
        return
    # identifiers: what reaches the number parser / the variable table
    for e in c.raw:
        if e.kind != "call" or e.exp:
            continue
        is_num = ("usize" in e.path or "str>::parse" in e.path) and e.name in ("from_str", "parse", "from_str_radix")
        is_var = e.name in ("entry", "get", "contains_key", "insert") and "HashMap" in e.path and e.args and \
            mentions(e.args[0], lambda x: x[0] == "field" and x[2] == "Script::vars")
        if not (is_num or is_var):
            continue
        key = e.args[0] if is_num else (e.args[1] if len(e.args) > 1 else None)
        if key is None:
            continue
        names = [x[1].split("::")[-1] for x in walk_arg(key) if x[0] == "call"]
        # a String assembled by pushes: what was pushed counts as well
        for x in walk_arg(key):
            if x[0] == "call" and x[1].split("::")[-1] in ("new", "with_capacity") and "String" in x[1]:
                for p2 in c.raw:
                    if p2.kind == "call" and p2.name in ("push", "push_str", "extend") and p2.args and strip_sites(strip_load(p2.args[0])) == strip_sites(x):
                        names += [y[1].split("::")[-1] for a2 in p2.args[1:] for y in walk_arg(a2) if y[0] == "call"]
        bad = sorted({x for x in names if x in TEXT_ALTERING and x != "trim"})
        def over_chars(x):
            y = strip_load(x[2])
            while y[0] == "adapt":
                y = strip_load(y[2])
            return y[0] == "iter" and y[2] in ("chars", "char_indices", "bytes")
        skips = [x for x in walk_arg(key) if x[0] == "adapt" and x[1] in ("skip", "skip_while", "take", "take_while", "filter", "step_by", "rev") and over_chars(x)]
        bad_skip = [x[1] for x in skips if not (x[1] == "skip" and strip_load(x[3][0]) == ("const", 1))]
        # exactly one: `$ν5` is the variable named `ν5`, not the number 5
        strips = len(skips) + sum(1 for x in names if x in ("strip_prefix", "split_at", "split_first"))
        if strips > 1:
            bad_skip = bad_skip + ["%d leading characters removed" % strips]
        if bad or bad_skip:
            R.bad("SC5", "SC5/Script::deploy_to/identifier-text-altered", e.where(),
                  "an identifier is not used as written minus exactly its one sigil (%s): different texts name the same vertex or "
                  "variable, or a malformed identifier is accepted" % (bad + bad_skip), {"text": show(key, e.body)[:240]})
        else:
            R.ok("SC5", e.where(), "identifier text: as written, at most one leading character removed")


SC6_DECODERS = ("from_str_radix", "from_str", "decode", "from_hex", "parse", "from_utf8")


def sc6(F, R):
    """what is decoded is what was validated: where a script argument is decoded (hex digits to bytes, digits to a number) under a
    successful `REGEX.is_match(t)`, the text handed to the decoder is (a part of) that same `t` — not the text `t` was derived from.
    PUT's data may be written with blanks, line breaks and dashes between the bytes; they are stripped *before* the test, and a
    decoder fed with the unstripped argument rejects (or mis-reads) legally formatted data."""
    c = sctx(F)
    if c.root is None:
        R.missing("SC6", "Script::deploy_to")
        return
    n = 0
    for e in c.raw:
        if e.kind != "call" or e.exp or e.name not in SC6_DECODERS or not e.args:
            continue
        tested = []
        for f in e.facts:
            if f[0] == "bool" and f[2] is True and f[1][0] == "call" and f[1][1].split("::")[-1] == "is_match" and len(f[1][2]) >= 2:
                tested.append(strip_sites(strip_load(f[1][2][1])))
        if not tested:
            continue
        n += 1
        txt = strip_sites(e.args[0])
        hit = any(mentions(txt, lambda x, t=t: strip_load(x) == t or x == t) for t in tested)
        if hit:
            R.ok("SC6", e.where(), "%s decodes (a part of) the text that passed the is_match test it is guarded by" % e.name)
        else:
            R.bad("SC6", "SC6/Script::deploy_to/decoded-text-not-the-validated-text/%s" % e.name, e.where(),
                  "the text given to %s is not the text that `is_match` accepted on this path (the test was made on a cleaned copy, the "
                  "decoder gets another string): legally formatted data — blanks, line breaks or dashes between the bytes — is rejected "
                  "or mis-read although the direct call succeeds" % e.name,
                  {"decoded": show(e.args[0], e.body)[:240], "validated": [show(t, e.body)[:240] for t in tested]})
    # a conditional rule: a parser that validates by other means than a regex test on a cleaned copy has no instance of it (its
    # decoder's own errors are covered by SC4); nothing to fail closed on
    R.note("SC6: %d decoding call(s) guarded by a successful regex test" % n)
    if n == 0:
        R.ok("SC6", c.root.where(), "no decoder runs under a regex test of a derived text: nothing to agree")


def sc1(F, R):
    c = sctx(F)
    root = c.root
    if root is None:
        R.missing("SC1", "Script::deploy_to")
        return
    R.analysed(root, len(c.raw))
    seen = {}
    calls = [e for e in c.muts if e.name != "next_id"]
    for e in calls:
        names = [f for f in e.facts if f[0] == "cmp" and f[1] == "==" and strip_load(f[3])[0] == "str" and
                 mentions(f[2], lambda x: x[0] == "call" and x[1].split("::")[-1] == "captures")]
        cmd = strip_load(names[0][3])[1] if len(names) == 1 else None
        detail = {"call": e.name, "guards": [show(f, e.body)[:200] for f in e.facts if f[0] == "cmp"]}
        if cmd not in TABLE:
            R.bad("SC1", "SC1/Script::deploy_to/%s-not-dispatched-by-name" % e.name, e.where(),
                  "the graph call `%s` is not selected by the command name (capture 1 of the command text) being equal to one of "
                  "ADD/BIND/PUT" % e.name, detail)
            continue
        want, argspec = TABLE[cmd]
        if e.name != want:
            R.bad("SC1", "SC1/Script::deploy_to/%s-runs-%s" % (cmd, e.name), e.where(),
                  "the command %s calls %s() instead of %s()" % (cmd, e.name, want), detail)
            continue
        gparam = [i for i in range(1, root.arg_count + 1) if root.locals[i]["ty"].startswith("&mut Sodg")]
        if not gparam or strip_load(e.args[0]) != ("param", gparam[0]):
            R.bad("SC1", "SC1/Script::deploy_to/%s-on-other-graph" % cmd, e.where(), "the command is applied to a graph other than the one given", detail)
            continue
        ok = len(e.args) - 1 == len(argspec)
        for (kind, pos), a in zip(argspec, e.args[1:]):
            ps = positions(a)
            # bytes / pieces pushed onto a vector the value is built from
            vecs = {strip_sites(x) for x in walk(a) if x[0] == "call" and x[1].split("::")[-1] in ("new", "with_capacity") and "Vec" in x[1]}
            for p2 in c.raw:
                if p2.kind == "call" and p2.name in ("push", "extend", "extend_from_slice", "push_str") and p2.args and \
                        strip_sites(strip_load(p2.args[0])) in vecs:
                    for a2 in p2.args[1:]:
                        ps |= positions(a2)
            if ps != {pos} or not conversion_ok(kind, a):
                ok = False
                R.bad("SC1", "SC1/Script::deploy_to/%s-argument-%d" % (cmd, pos), e.where(),
                      "argument %d of %s is not the %s conversion of text argument no.%d (taken from position(s) %s): the command's "
                      "arguments are swapped, reused or converted differently" % (pos, cmd, kind, pos, sorted(ps)), {"value": show(a, e.body)[:300]})
        if ok:
            seen[cmd] = True
            R.ok("SC1", e.where(), "%s(…) → g.%s(%s)" % (cmd, want, ", ".join("%s(arg%d)" % (k, p) for k, p in argspec)), detail)
    for cmd in TABLE:
        if cmd not in seen and not any(v["key"].startswith("SC1/") and cmd in v["key"] for v in R.violations):
            R.bad("SC1", "SC1/Script::deploy_to/%s-missing" % cmd, root.where(), "the command %s is not dispatched to a graph call" % cmd)
    R.floor("SC1", "dispatched graph calls", len(calls), 3, root.where())
    # no other graph mutation
    evs, raw, col = state_events(F, root, stop_names=G.api_names(F))
    for e in evs:
        R.bad("SC1", "SC1/%s/direct-%s" % (e.fn_key(), e.kind), e.where(), "deploying a script changes graph state directly (%s), not through add/bind/put" % e.kind)


def command_list(c):
    """(expression of the command list the main loop walks, loop item, `next` event)"""
    b = c.root
    best = None
    for e in c.raw:
        if e.kind == "call" and e.callee.get("decl") == "std::iter::Iterator::next" and e.body is b and e.args:
            it = strip_load(e.args[0])
            src = iter_source(it)
            if src is None:
                continue
            # the loop whose body contains the graph calls
            inside = [m for m in c.muts if any(f[0] == "in" and f[2] == frozenset(["Some"]) and strip_load(f[1])[0] == "discr" and
                                                 strip_sites(strip_load(strip_load(f[1])[1])) == strip_sites(("next", it, e.site[0])) for f in m.facts)]
            if inside and (best is None or len(inside) > best[3]):
                best = (strip_load(src), it, e, len(inside))
    return best


def split_chain_ok(F, chain, body):
    """chain = text.split(';') through order-preserving adaptors, comments stripped from the whole text first"""
    chain = strip_load(chain)
    ads = [a for a, _ in iter_adaptors(chain)]
    it = chain
    while it[0] == "adapt":
        it = strip_load(it[2])
    if not (it[0] == "iter" and it[2] == "split" and len(it) > 3):
        return "the command list is not made of the pieces of the script text"
    if strip_load(it[3][0]) != ("const", ord(";")):
        return "the script text is not cut at ';'"
    if not mentions(it[1], lambda x: x[0] == "field" and x[2] == "Script::txt"):
        return "the text that is cut is not the script's own text"
    stripped_first = mentions(it[1], lambda x: x[0] == "call" and x[1].split("::")[-1] in ("replace_all", "replace", "replacen"))
    strips_later = False
    for an, ex in iter_adaptors(chain):
        for x in ex:
            cbx = F.bodies.get(strip_load(x)[1]) if strip_load(x)[0] == "closure" else None
            if cbx is not None and any(t["callee"].get("name") in ("replace_all", "replace") for _, t in cbx.calls()):
                strips_later = True
    if strips_later and not stripped_first:
        return "split-before-comment-strip"
    bad = [a for a in ads if a not in ("map", "filter", "enumerate", "inspect", "peekable")]
    if bad:
        return "order:%s" % bad
    return None


def sc3(F, R):
    c = sctx(F)
    b = c.root
    if b is None:
        R.missing("SC3", "Script::deploy_to")
        return
    cl = command_list(c)
    if cl is None:
        R.bad("SC3", "SC3/Script::deploy_to/shape", b.where(), "cannot establish SC3: no loop over the command list containing the graph calls found")
        return
    src, it, nxt, _ = cl
    ads_all = iter_adaptors(it)
    after_collect = []
    collected = None
    for an, ex in ads_all:
        if an == "collect":
            collected = strip_load(ex[0])
            after_collect = []
        else:
            after_collect.append(an)
    walk_ads = after_collect if collected is not None else [a for a, _ in ads_all]
    if [a for a in walk_ads if a not in ("enumerate", "inspect", "peekable")]:
        R.bad("SC3", "SC3/Script::deploy_to/commands-not-in-order", nxt.where(),
              "the commands are not deployed one by one in the order of the list (adaptors %s)" % walk_ads)
    # where does the list come from?
    why = None
    if collected is not None:
        why = split_chain_ok(F, collected[2][-1], b)
        src = collected
    elif src[0] == "call" and src[1].split("::")[-1] in ("collect", "collect_vec", "from_iter"):
        why = split_chain_ok(F, src[2][-1], b)
    else:
        # a vector filled by pushes in a loop over the split pieces
        pushes = [e for e in c.raw if e.kind == "call" and e.name == "push" and e.args and strip_sites(strip_load(e.args[0])) == strip_sites(src)]
        if not pushes:
            why = "the command list is neither a collected split nor a vector filled from one"
        for p in pushes:
            items = [x for x in walk(p.args[1]) if x[0] == "item"]
            chains = [x[1] for x in items if iter_source(x[1]) is not None]
            if not chains:
                why = "a command pushed onto the list is not a piece of the split text"
                continue
            w2 = split_chain_ok(F, chains[0], b)
            why = why or w2
            extra = [f for f in p.facts if not (f[0] == "in" and strip_load(f[1])[0] == "discr") and "Level" not in repr(f)
                     and not (f[0] == "bool" and strip_load(f[1])[0] == "call" and strip_load(f[1])[1].split("::")[-1] == "is_empty")]
            if extra:
                why = why or "a piece is skipped under a condition other than being empty"
    if why == "split-before-comment-strip":
        R.bad("SC3", "SC3/Script::commands/split-before-comment-strip", b.where(),
              "the text is cut at ';' before comments are removed: a ';' inside a comment splits the comment, and the rest of it is "
              "taken for a command (a well-formed script then fails half-way)")
    elif why and why.startswith("order:"):
        R.bad("SC3", "SC3/Script::commands/order", b.where(), "the command list passes through %s: textual order or the set of commands is not preserved" % why[6:])
    elif why:
        R.bad("SC3", "SC3/Script::commands/split", b.where(), why)
    else:
        R.ok("SC3", b.where(), "commands = text (comments stripped first) cut at ';', order kept, deployed one by one")
    # ---- the returned count
    rets = []
    for d in b.defs().get(0, []):
        site = (d[0], d[1])
        e = b.expr_rvalue(d[3], site) if d[2] == "assign" else b.expr_call(d[3], site)
        if e[0] == "agg" and e[2] == "Ok":
            rets.append((site, d[3], e))
    if len(rets) != 1:
        R.bad("SC3", "SC3/Script::deploy_to/ok-results", b.where(), "cannot establish SC3: %d Ok results" % len(rets))
        return
    rsite, rv, rexpr = rets[0]
    mut_sites = [m for m in c.muts if m.name != "next_id" and m.body is b]
    header = nxt.site
    # every pass through the loop body applies a command (or leaves the function)
    def reach_without(frm, to, avoid):
        seen = set()
        st = [s for s, _ in b.succ[frm]]
        while st:
            x = st.pop()
            if x in seen or x in avoid:
                continue
            seen.add(x)
            if x == to:
                return True
            st.extend(s for s, _ in b.succ[x])
        return False
    val = strip_load(dict(rexpr[3])["0"])
    if val[0] == "call" and val[1].split("::")[-1] == "len" and strip_sites(strip_load(val[2][0])) == strip_sites(src):
        # Ok(list.len()): equals the number applied iff no pass through the loop skips the command without failing
        back = [p for p, _ in b.pred[header[0]] if b.reaches((header[0], 0), (p, 0))]
        okd, errd, via = result_defs_before(b, (back[0], 0)) if back else ([], [], None)
        mutb = {m.site[0] for m in mut_sites}
        if via is not None:
            skip = False
        elif okd:
            skip = any(reach_without(header[0], d[0], mutb) for d in okd)
        else:
            skip = reach_without(header[0], header[0], mutb)
        if skip:
            R.bad("SC3", "SC3/Script::deploy_to/count-is-list-length-but-commands-skipped", b.where(rsite),
                  "the result is the length of the command list, but a command can be passed over without being applied")
        else:
            R.ok("SC3", b.where(rsite), "Ok(number of commands): every pass of the loop applies its command or returns Err")
        return
    op = rv["ops"][0]
    cnt_local = None
    if op.get("k") in ("copy", "move") and not op["place"]["proj"]:
        cnt_local = op["place"]["local"]
        ds = b.defs().get(cnt_local, [])
        if len(ds) == 1 and ds[0][2] == "assign" and ds[0][3]["k"] == "use" and ds[0][3]["op"].get("k") in ("copy", "move") and not ds[0][3]["op"]["place"]["proj"]:
            cnt_local = ds[0][3]["op"]["place"]["local"]
    if cnt_local is None:
        R.bad("SC3", "SC3/Script::deploy_to/count-not-a-counter", b.where(rsite), "cannot establish SC3: the returned value is neither a local counter nor the list's length",
              {"value": show(val, b)[:200]})
        return
    incs, inits, other = [], [], []
    for d in b.defs().get(cnt_local, []):
        site = (d[0], d[1])
        e = b.expr_rvalue(d[3], site) if d[2] == "assign" else b.expr_call(d[3], site)
        cc = strip_load(e)
        if cc == ("const", 0):
            inits.append(site)
        elif cc[0] == "binop" and cc[1] == "Add" and strip_load(cc[3]) == ("const", 1):
            incs.append(site)
        else:
            other.append((site, e))
    if other or len(inits) != 1:
        R.bad("SC3", "SC3/Script::deploy_to/count-updates", b.where(), "the returned count is not a counter starting at 0 and only incremented by 1",
              {"other": [show(e, b)[:200] for _, e in other]})
        return
    if len(incs) != 1:
        R.bad("SC3", "SC3/Script::deploy_to/count-increments", b.where(), "the count is incremented at %d places" % len(incs))
        return
    isite = incs[0]
    # the `?` whose success edge leads to the increment, and the definitions of the result it tests
    okdefs, errdefs, via_call = result_defs_before(b, isite)
    mut_blocks = {m.site[0] for m in mut_sites}
    if via_call is not None:
        # the per-command function is still a call (public or recursive): its success is the success of the command
        R.ok("SC3", b.where(isite), "count += 1 on the success edge of `%s`; Ok(count)" % short_path(via_call))
        return
    if not okdefs:
        # no `?` in front of the increment: fall back to plain reachability
        not_via = reach_without(header[0], isite[0], mut_blocks)
        missed = [m for m in mut_sites if not b.postdominates(isite, m.site)]
    else:
        not_via = any(reach_without(header[0], d[0], mut_blocks) or d[0] == header[0] for d in okdefs)
        ok_blocks = {d[0] for d in okdefs}
        missed = [m for m in mut_sites if any(reach_without(m.site[0], d[0], ok_blocks | {header[0]}) for d in errdefs)
                  or not any(reach_without(m.site[0], d[0], set()) or d[0] == m.site[0] for d in okdefs)]
    if not_via:
        R.bad("SC3", "SC3/Script::deploy_to/count-not-tied-to-success", b.where(isite),
              "the count can be incremented on a pass of the loop that did not apply a command: it does not equal the number of commands applied")
    elif missed:
        R.bad("SC3", "SC3/Script::deploy_to/count-misses-applied-command", missed[0].where(),
              "a command can be applied without the count being incremented afterwards (`%s`)" % missed[0].name)
    else:
        R.ok("SC3", b.where(isite), "count += 1 exactly once after each applied command; Ok(count)")


def chase(b, op, site, depth=0):
    """follow an operand back through moves / context wrappers to (local, its definition sites)"""
    if op.get("k") not in ("copy", "move") or op["place"]["proj"] or depth > 8:
        return None
    local = op["place"]["local"]
    defs = b.defs().get(local, [])
    if len(defs) == 1:
        bb, idx, kind, payload = defs[0]
        if kind == "assign" and payload["k"] == "use":
            r = chase(b, payload["op"], (bb, idx), depth + 1)
            if r is not None:
                return r
        if kind == "call":
            c = payload["callee"]
            if c.get("name") in ("with_context", "context", "map_err") and payload["args"]:
                r = chase(b, payload["args"][0], (bb, idx), depth + 1)
                if r is not None:
                    return r
            return ("call", c.get("path"), (bb, idx))
    return ("local", local, [(d[0], d[1], d[2], d[3]) for d in defs])


def result_defs_before(b, isite):
    """(sites defining Ok, sites defining Err/other, call path) for the result tested by the `?` that guards site `isite`"""
    best = None
    for bi in sorted(b.reachable):
        t = b.blocks[bi]["term"]
        if t["k"] == "call" and t["callee"].get("decl") == "std::ops::Try::branch" and t["target"] is not None:
            if b.dominates((bi, b.term_idx(bi)), isite) and (best is None or b.dominates((best, 0), (bi, 0))):
                best = bi
    if best is None:
        return [], [], None
    t = b.blocks[best]["term"]
    r = chase(b, t["args"][0], (best, b.term_idx(best)))
    if r is None:
        return [], [], None
    if r[0] == "call":
        return [], [], r[1]
    oks, errs = [], []

    def leaves(defs, depth=0):
        for bb, idx, kind, pl in defs:
            site = (bb, idx)
            if kind == "assign" and pl["k"] == "use" and pl["op"].get("k") in ("copy", "move") and not pl["op"]["place"]["proj"] and depth < 8:
                inner = [(d[0], d[1], d[2], d[3]) for d in b.defs().get(pl["op"]["place"]["local"], [])]
                if inner:
                    yield from leaves(inner, depth + 1)
                    continue
            yield site, kind, pl
    for site, kind, pl in leaves(r[2]):
        e = b.expr_rvalue(pl, site) if kind == "assign" else b.expr_call(pl, site)
        e = strip_load(e)
        if e[0] == "agg" and e[2] == "Ok":
            oks.append(site)
        else:
            errs.append(site)
    return oks, errs, None


SC_PANICKY = {"unwrap", "expect", "unwrap_unchecked", "index", "index_mut", "panic_fmt", "panic", "unreachable", "assert_failed",
              "unwrap_err", "expect_err", "slice_index_fail", "split_at", "remove", "swap_remove"}


def sc4(F, R):
    c = sctx(F)
    root = c.root
    if root is None:
        R.missing("SC4", "Script::deploy_to")
        return
    n = 0
    audited = 0
    events = list(c.raw)
    # initialisers of the statics used (LazyLock closures): they run on first use
    statics = set()
    for e in c.raw:
        if e.kind == "call":
            for a in e.args:
                for x in walk(a):
                    if x[0] == "static":
                        statics.add(x[1])
    for b in F.all_bodies():
        if b.kind == "Closure" and any(b.path.startswith(s + "::") for s in statics):
            events += Collector(F).collect(b)
    for e in events:
        if e.kind != "call":
            continue
        cc = e.callee
        nm = e.name
        if nm not in SC_PANICKY or e.exp:
            continue
        if nm in ("index", "index_mut") and cc.get("local"):
            continue
        if nm == "remove" and e.krate not in ("alloc", "std", "core"):
            continue
        n += 1
        args = [strip_load(a) for a in e.args]
        why = None
        # E1: Regex::new(<literal>).unwrap()
        if nm in ("unwrap", "expect") and args and args[0][0] == "call" and args[0][1].endswith("Regex::new") and strip_load(args[0][2][0])[0] == "str":
            why = "Regex::new on the literal %r" % strip_load(args[0][2][0])[1]
        # E2: cap[k] of a match whose first k groups always participate
        elif nm == "index" and "Captures" in e.path and len(args) == 2 and args[1][0] == "const":
            lit = regex_literal_of(F, args[0])
            k = args[1][1]
            if lit is not None and k <= unconditional_groups(lit):
                why = "capture %d of %r always participates in a match" % (k, lit)
        # E3: hex pair parsing dominated by the hex-pairs regex matching
        elif (nm in ("unwrap", "expect") and args and args[0][0] == "call" and args[0][1].endswith("from_str_radix")) or \
                (nm == "index" and "for str" in e.path):
            m = [f for f in e.facts if f[0] == "bool" and f[2] is True and strip_load(f[1])[0] == "call" and strip_load(f[1])[1].endswith("::is_match")]
            if m:
                lit = regex_literal_of(F, strip_load(m[0][1]))
                if lit is not None and "[0-9A-Fa-f]{2}" in lit and lit.startswith("^") and lit.endswith("$"):
                    why = "dominated by %r matching the same text" % lit
            # E4: text cut right after its own first character
            if why is None and nm == "index" and len(args) == 2 and args[1][0] == "agg" and args[1][1] == "RangeFrom":
                st = strip_load(dict(args[1][3])["start"])
                if st[0] == "call" and st[1].split("::")[-1] == "len_utf8" and \
                        mentions(st[2][0], lambda x: x[0] == "iter" and x[2] == "chars" and strip_sites(strip_load(x[1])) == strip_sites(args[0])):
                    why = "text[len_utf8(first char of the same text)..] is on a character boundary within the text"
        if why:
            audited += 1
            R.ok("SC4", e.where(), "audited exception: %s (%s)" % (nm, why))
        else:
            R.bad("SC4", "SC4/Script::deploy_to/%s" % nm, e.where(),
                  "a panicking operation (`%s`) is applied to script-derived data outside the audited exceptions: a malformed "
                  "command panics instead of yielding Err" % e.path,
                  {"args": [show(a, e.body)[:200] for a in args], "guards": [show(f, e.body)[:200] for f in e.facts if "Level" not in repr(f)][:8]})
    # place-level indexing with a bounds assert
    for b in [root] + [F.bodies[p] for p in {e.body.path for e in c.raw} if p in F.bodies and F.bodies[p] is not root]:
        for bi in sorted(b.reachable):
            t = b.blocks[bi]["term"]
            if t["k"] == "assert" and t["kind"] == "bounds" and not t.get("exp"):
                n += 1
                R.bad("SC4", "SC4/Script::deploy_to/slice-index", b.where((bi, 0)), "a vector/slice is indexed with `[i]` on script-derived data (panics when out of range)")
    R.floor("SC4", "panicking operations examined in the script closure", n, 3, root.where())
    R.note("SC4: %d panicking operations, %d matched audited exceptions" % (n, audited))


def regex_literal_of(F, e):
    """literal pattern of the static regex an expression's `captures`/`is_match` call is made on"""
    for x in walk(e):
        if x[0] == "static":
            path = x[1]
            for b in F.all_bodies():
                if b.kind == "Closure" and b.path.startswith(path + "::"):
                    for site, t in b.calls():
                        if t["callee"].get("path", "").endswith("Regex::new"):
                            a = strip_load(deref_addr(b, b.call_args(t, site)[0]))
                            if a[0] == "str":
                                return a[1]
    return None


def unconditional_groups(pattern):
    """number of leading capture groups that are not optional / alternated (participate in every match)"""
    depth = 0
    n = 0
    i = 0
    opened = []
    while i < len(pattern):
        ch = pattern[i]
        if ch == "\\":
            i += 2
            continue
        if ch == "[":
            j = i + 1
            while j < len(pattern) and pattern[j] != "]":
                j += 2 if pattern[j] == "\\" else 1
            i = j + 1
            continue
        if ch == "(":
            cap = not pattern.startswith("(?", i)
            opened.append((cap, depth))
            depth += 1
        elif ch == ")":
            cap, d = opened.pop()
            depth -= 1
            nxt = pattern[i + 1] if i + 1 < len(pattern) else ""
            if cap and d == 0:
                if nxt in ("?", "*") or (nxt == "{" and pattern[i + 2:i + 3] == "0"):
                    return n
                n += 1
        elif ch == "|" and depth == 0:
            return 0
        i += 1
    return n

"""C14: Script::deploy_to — SC1..SC4."""
from core import *
from model import *
import gc_rules as G

TABLE = {"ADD": ("add", [("parse", 0)]),
         "BIND": ("bind", [("parse", 0), ("parse", 1), ("from_str", 2)]),
         "PUT": ("put", [("parse", 0), ("parse_data", 1)])}


def script_bodies(F):
    root = F.fn("Script", "deploy_to")
    out = []
    seen = set()
    st = [root.path] if root else []
    while st:
        p = st.pop()
        if p in seen:
            continue
        seen.add(p)
        b = F.bodies.get(p)
        if b is None:
            continue
        out.append(b)
        for site, t in b.calls():
            c = t["callee"]
            if c.get("local") and c.get("path") in F.bodies and F.bodies[c["path"]].self_adt == "Script":
                st.append(c["path"])
        for cb in F.all_bodies():
            if cb.kind == "Closure" and cb.parent == p:
                st.append(cb.path)
            # static initialisers nested in the function (LazyLock closures)
            if cb.kind == "Closure" and cb.path.startswith(p + "::") and cb.path not in seen:
                st.append(cb.path)
    return root, out


def positional(e):
    """argument position an expression was taken from: first()/get(k)/[k] of the argument vector"""
    for x in walk(e):
        if x[0] == "call":
            n = x[1].split("::")[-1]
            if n == "first":
                return 0, x[2][0]
            if n in ("get", "index") and len(x[2]) > 1 and strip_load(x[2][1])[0] == "const":
                return strip_load(x[2][1])[1], x[2][0]
        if x[0] == "elem" and strip_load(x[2])[0] == "const" and mentions(x[1], lambda y: y[0] == "call" and y[1].split("::")[-1] == "collect"):
            return strip_load(x[2])[1], x[1]
    return None, None


def sc1(F, R):
    root, bodies = script_bodies(F)
    if root is None:
        R.missing("SC1", "Script::deploy_to")
        return
    for b in bodies:
        R.analysed(b, sum(1 for _ in b.sites()))
    calls = []
    for b in bodies:
        for e in Collector(F, depth=0).collect(b):
            if e.kind == "call" and e.callee.get("local") and e.body is b:
                cb = F.bodies.get(e.path)
                if cb is not None and cb.self_adt == "Sodg" and cb.arg_count >= 1 and cb.locals[1]["ty"].startswith("&mut"):
                    calls.append(e)
    seen = {}
    for e in calls:
        if e.name == "next_id":
            continue   # SC2
        names = [f for f in e.facts if f[0] == "cmp" and f[1] == "==" and strip_load(f[3])[0] == "str"]
        cmd = strip_load(names[0][3])[1] if len(names) == 1 else None
        detail = {"call": e.name, "guards": [show(f, e.body) for f in e.facts if f[0] == "cmp"]}
        if cmd not in TABLE:
            R.bad("SC1", "SC1/Script::deploy_one/%s-not-dispatched-by-name" % e.name, e.where(),
                  "the graph call `%s` is not selected by the command name being equal to one of ADD/BIND/PUT" % e.name, detail)
            continue
        want, argspec = TABLE[cmd]
        if e.name != want:
            R.bad("SC1", "SC1/Script::deploy_one/%s-runs-%s" % (cmd, e.name), e.where(),
                  "the command %s calls %s() instead of %s()" % (cmd, e.name, want), detail)
            continue
        # command name is capture 1 of the LINE match of the command text
        subj = strip_load(names[0][2])
        if not mentions(subj, lambda x: x[0] == "call" and x[1].split("::")[-1] == "captures"):
            R.bad("SC1", "SC1/Script::deploy_one/name-not-from-command", e.where(), "the dispatched name is not taken from the command text", detail)
            continue
        gparam = [i for i in range(1, e.body.arg_count + 1) if e.body.locals[i]["ty"].startswith("&mut Sodg")]
        if not gparam or strip_load(e.args[0]) != ("param", gparam[0]):
            R.bad("SC1", "SC1/Script::deploy_one/%s-on-other-graph" % cmd, e.where(), "the command is applied to a graph other than the one given", detail)
            continue
        ok = len(e.args) - 1 == len(argspec)
        vecs = set()
        for (fn, pos), a in zip(argspec, e.args[1:]):
            conv = [x for x in walk(a) if x[0] == "call" and x[1].split("::")[-1] == fn]
            p, vec = positional(a)
            if not conv or p != pos:
                ok = False
                R.bad("SC1", "SC1/Script::deploy_one/%s-argument-%d" % (cmd, pos), e.where(),
                      "argument %d of %s is not %s(text argument no.%d) (found position %s): the command's arguments are swapped, "
                      "reused or converted differently" % (pos, cmd, fn, pos, p), {"value": show(a, e.body)[:300]})
            if vec is not None:
                vecs.add(strip_sites(strip_load(vec)))
        if ok and len(vecs) == 1:
            seen[cmd] = True
            R.ok("SC1", e.where(), "%s(…) → g.%s(%s)" % (cmd, want, ", ".join("%s(arg%d)" % (f, p) for f, p in argspec)), detail)
        elif ok:
            R.bad("SC1", "SC1/Script::deploy_one/%s-argument-vectors" % cmd, e.where(), "arguments are taken from different argument lists")
    for cmd in TABLE:
        if cmd not in seen and not any(v["key"].startswith("SC1/") and cmd in v["key"] for v in R.violations):
            R.bad("SC1", "SC1/Script::deploy_one/%s-missing" % cmd, root.where(), "the command %s is not dispatched to a graph call" % cmd)
    R.floor("SC1", "dispatched graph calls", len([e for e in calls if e.name != "next_id"]), 3, root.where())
    # no other graph mutation
    evs, raw, col = state_events(F, root, stop_names=G.api_names(F))
    for e in evs:
        R.bad("SC1", "SC1/%s/direct-%s" % (e.fn_key(), e.kind), e.where(), "deploying a script changes graph state directly (%s), not through add/bind/put" % e.kind)


def sc3(F, R):
    root, bodies = script_bodies(F)
    if root is None:
        R.missing("SC3", "Script::deploy_to")
        return
    b = root
    calls = list(b.calls())
    cmds = [(s, t) for s, t in calls if t["callee"].get("name") == "commands" and t["callee"].get("local")]
    ones = [(s, t) for s, t in calls if t["callee"].get("name") == "deploy_one" and t["callee"].get("local")]
    if len(cmds) != 1 or len(ones) != 1:
        R.bad("SC3", "SC3/Script::deploy_to/shape", b.where(), "cannot establish SC3: deploy_to does not have one commands() and one deploy_one() call")
        return
    osite, ot = ones[0]
    oargs = [strip_load(deref_addr(b, a)) for a in b.call_args(ot, osite)]
    item = [a for a in oargs if a[0] == "item"]
    okitem = False
    if item:
        it = item[0][1]
        src = iter_source(it)
        okitem = src is not None and strip_load(src)[0] == "call" and strip_load(src)[1].endswith("::commands") and not iter_adaptors(it)
    if not okitem:
        R.bad("SC3", "SC3/Script::deploy_to/commands-not-in-order", b.where(osite),
              "deploy_one is not applied to each command of commands() in sequence (reordered, skipped or filtered)", {"args": [show(a, b) for a in oargs]})
    else:
        R.ok("SC3", b.where(osite), "every command of commands() is deployed, in sequence")
    # the returned count
    rets = []
    for d in b.defs().get(0, []):
        site = (d[0], d[1])
        e = b.expr_rvalue(d[3], site) if d[2] == "assign" else b.expr_call(d[3], site)
        if e[0] == "agg" and e[2] == "Ok":
            rets.append((site, d[3]))
    if len(rets) != 1:
        R.bad("SC3", "SC3/Script::deploy_to/ok-results", b.where(), "cannot establish SC3: %d Ok results" % len(rets))
        return
    rsite, rv = rets[0]
    op = rv["ops"][0]
    cnt_local = None
    if op.get("k") in ("copy", "move") and not op["place"]["proj"]:
        cnt_local = op["place"]["local"]
        # follow a temp copy
        ds = b.defs().get(cnt_local, [])
        if len(ds) == 1 and ds[0][2] == "assign" and ds[0][3]["k"] == "use" and ds[0][3]["op"].get("k") in ("copy", "move") and not ds[0][3]["op"]["place"]["proj"]:
            cnt_local = ds[0][3]["op"]["place"]["local"]
    if cnt_local is None:
        R.bad("SC3", "SC3/Script::deploy_to/count-not-a-counter", b.where(rsite), "cannot establish SC3: the returned value is not a local counter")
        return
    incs, inits, other = [], [], []
    for d in b.defs().get(cnt_local, []):
        site = (d[0], d[1])
        e = b.expr_rvalue(d[3], site) if d[2] == "assign" else b.expr_call(d[3], site)
        c = strip_load(e)
        if c == ("const", 0):
            inits.append(site)
        elif c[0] == "binop" and c[1] == "Add" and strip_load(c[3]) == ("const", 1):
            incs.append(site)
        else:
            other.append((site, e))
    if other or len(inits) != 1:
        R.bad("SC3", "SC3/Script::deploy_to/count-updates", b.where(), "the returned count is not a counter starting at 0 and only incremented by 1",
              {"other": [show(e, b) for _, e in other]})
        return
    if len(incs) != 1:
        R.bad("SC3", "SC3/Script::deploy_to/count-increments", b.where(), "the count is incremented %d times per pass" % len(incs))
        return
    isite = incs[0]
    facts = b.facts_at(isite)
    succ = any(f[0] == "in" and f[2] == frozenset(["Continue"]) and mentions(f[1], lambda x: x[0] == "call" and x[1].endswith("::deploy_one")) for f in facts)
    extra = [f for f in facts if not (f[0] == "in" and (f[2] == frozenset(["Continue"]) or f[2] == frozenset(["Some"]))) and "Level" not in repr(f)
             and not (f[0] == "bool" and strip_load(f[1])[0] == "ovf")]
    if not succ:
        R.bad("SC3", "SC3/Script::deploy_to/count-not-tied-to-success", b.where(isite),
              "the count is not incremented exactly on the success edge of deploy_one: it does not equal the number of commands applied")
    elif extra:
        R.bad("SC3", "SC3/Script::deploy_to/count-conditional", b.where(isite), "the count is incremented only under an extra condition",
              {"conditions": [show(f, b) for f in extra]})
    elif not b.dominates(osite, isite):
        R.bad("SC3", "SC3/Script::deploy_to/count-before-deploy", b.where(isite), "the count is incremented before the command is deployed")
    else:
        R.ok("SC3", b.where(isite), "count += 1 exactly once per successfully deployed command; Ok(count)")
    # commands(): order-preserving split
    cb = F.fn("Script", "commands")
    if cb is None:
        R.missing("SC3", "Script::commands")
        return
    for r in cb.returns:
        e = strip_load(cb.expr_local(0, (r, cb.term_idx(r))))
        chain = strip_load(e[2][0]) if e[0] == "call" and e[1].split("::")[-1] == "collect" else None
        if chain is None:
            R.bad("SC3", "SC3/Script::commands/result-shape", cb.where(), "cannot establish SC3: commands() is not a collected split", {"value": show(e, cb)[:300]})
            continue
        ads = [a for a, _ in iter_adaptors(chain)]
        it = chain
        while it[0] == "adapt":
            it = strip_load(it[2])
        sep = strip_load(it[3][0]) if it[0] == "iter" and it[2] == "split" and len(it) > 3 else None
        srcok = it[0] == "iter" and it[2] == "split" and mentions(it[1], lambda x: x[0] == "field" and x[2] == "Script::txt")
        badads = [a for a in ads if a not in ("map", "filter")]
        # comments are stripped from the whole text before it is cut at ';' (a comment may contain ';')
        stripped_first = mentions(it[1], lambda x: x[0] == "call" and x[1].split("::")[-1] in ("replace_all", "replace", "replacen"))
        strips_later = False
        for an, ex in iter_adaptors(chain):
            for x in ex:
                cbx = F.bodies.get(strip_load(x)[1]) if strip_load(x)[0] == "closure" else None
                if cbx is not None and any(t["callee"].get("name") in ("replace_all", "replace") for _, t in cbx.calls()):
                    strips_later = True
        if not srcok or sep != ("const", ord(";")):
            R.bad("SC3", "SC3/Script::commands/split", cb.where(), "commands are not the pieces of the script text between ';'", {"chain": show(chain, cb)[:300]})
        elif strips_later and not stripped_first:
            R.bad("SC3", "SC3/Script::commands/split-before-comment-strip", cb.where(),
                  "the text is cut at ';' before comments are removed: a ';' inside a comment splits the comment, and the rest of it is "
                  "taken for a command (a well-formed script then fails half-way)")
        elif badads:
            R.bad("SC3", "SC3/Script::commands/order", cb.where(), "the command list passes through %s: textual order or the set of commands is not preserved" % badads)
        else:
            R.ok("SC3", cb.where(), "commands() = text.split(';') through order-preserving adaptors (%s)" % ads)


SC_PANICKY = {"unwrap", "expect", "unwrap_unchecked", "index", "index_mut", "panic_fmt", "panic", "unreachable", "assert_failed",
              "unwrap_err", "expect_err", "slice_index_fail", "split_at", "remove", "swap_remove"}


def sc4(F, R):
    root, bodies = script_bodies(F)
    if root is None:
        R.missing("SC4", "Script::deploy_to")
        return
    n = 0
    audited = 0
    for b in bodies:
        # facts at the creation site of this closure (for closures): outer guards
        outer = frozenset()
        if b.kind == "Closure":
            pb = F.bodies.get(b.parent)
            if pb is not None:
                for site, kind, s in pb.sites():
                    if kind == "stmt" and s["k"] == "assign" and s["rv"]["k"] == "aggregate" and s["rv"].get("closure") == b.path:
                        outer = pb.facts_at(site)
        for site, t in b.calls():
            c = t["callee"]
            nm = c.get("name")
            if nm not in SC_PANICKY or t.get("exp"):
                continue
            if nm in ("index", "index_mut") and c.get("local"):
                continue
            if nm == "remove" and c.get("krate") not in ("alloc", "std", "core"):
                continue
            n += 1
            args = [strip_load(deref_addr(b, a)) for a in b.call_args(t, site)]
            facts = b.facts_at(site) | outer
            why = None
            # E1: Regex::new(<literal>).unwrap()
            if nm in ("unwrap", "expect") and args and args[0][0] == "call" and args[0][1].endswith("Regex::new") and strip_load(args[0][2][0])[0] == "str":
                why = "Regex::new on the literal %r" % strip_load(args[0][2][0])[1]
            # E2: cap[k] for k in {1, 2} of the LINE match, whose groups always participate
            elif nm == "index" and "Captures" in c.get("path", "") and len(args) == 2 and args[1][0] == "const":
                lit = regex_literal_of(F, args[0])
                k = args[1][1]
                if lit is not None and k <= unconditional_groups(lit):
                    why = "capture %d of %r always participates in a match" % (k, lit)
            # E3: hex pair parsing dominated by the hex-pairs regex matching
            elif (nm in ("unwrap", "expect") and args and args[0][0] == "call" and args[0][1].endswith("from_str_radix")) or \
                    (nm == "index" and "for str" in c.get("path", "")):
                m = [f for f in facts if f[0] == "bool" and f[2] is True and strip_load(f[1])[0] == "call" and strip_load(f[1])[1].endswith("::is_match")]
                if m:
                    lit = regex_literal_of(F, strip_load(m[0][1]))
                    if lit is not None and "[0-9A-Fa-f]{2}" in lit and lit.startswith("^") and lit.endswith("$"):
                        why = "dominated by %r matching the same text" % lit
            if why:
                audited += 1
                R.ok("SC4", b.where(site), "audited exception: %s (%s)" % (nm, why))
            else:
                R.bad("SC4", "SC4/%s/%s" % (fn_key(b), nm), b.where(site),
                      "a panicking operation (`%s`) is applied to script-derived data outside the audited exceptions: a malformed "
                      "command panics instead of yielding Err" % c.get("path"),
                      {"args": [show(a, b)[:200] for a in args], "guards": [show(f, b)[:200] for f in facts if "Level" not in repr(f)]})
        # place-level indexing with a bounds assert on non-constant indices
        for bi in sorted(b.reachable):
            t = b.blocks[bi]["term"]
            if t["k"] == "assert" and t["kind"] == "bounds" and not t.get("exp"):
                n += 1
                R.bad("SC4", "SC4/%s/slice-index" % fn_key(b), b.where((bi, 0)), "a vector/slice is indexed with `[i]` on script-derived data (panics when out of range)")
    R.floor("SC4", "panicking operations examined in the script closure", n, 3, root.where())
    R.note("SC4: %d panicking operations, %d matched audited exceptions" % (n, audited))


def regex_literal_of(F, e):
    """literal pattern of the static regex an expression's `captures`/`is_match` call is made on"""
    for x in walk(e):
        if x[0] == "static":
            path = x[1]
            for b in F.all_bodies():
                if b.kind == "Closure" and b.path.startswith(path + "::"):
                    for site, t in b.calls():
                        if t["callee"].get("path", "").endswith("Regex::new"):
                            a = strip_load(deref_addr(b, b.call_args(t, site)[0]))
                            if a[0] == "str":
                                return a[1]
    return None


def unconditional_groups(pattern):
    """number of leading capture groups that are not optional / alternated (participate in every match)"""
    depth = 0
    n = 0
    i = 0
    ok = True
    opened = []
    while i < len(pattern):
        ch = pattern[i]
        if ch == "\\":
            i += 2
            continue
        if ch == "[":
            j = i + 1
            while j < len(pattern) and pattern[j] != "]":
                j += 2 if pattern[j] == "\\" else 1
            i = j + 1
            continue
        if ch == "(":
            cap = not pattern.startswith("(?", i)
            opened.append((cap, depth))
            depth += 1
        elif ch == ")":
            cap, d = opened.pop()
            depth -= 1
            nxt = pattern[i + 1] if i + 1 < len(pattern) else ""
            if cap and d == 0:
                if nxt in ("?", "*") or (nxt == "{" and pattern[i + 2:i + 3] == "0"):
                    return n
                n += 1
        elif ch == "|" and depth == 0:
            return 0
        i += 1
    return n

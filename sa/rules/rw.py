"""C03: edges and data read back what was last written — RW1..RW7."""
from core import *
from model import *
import gc_rules as G
import label as LB


def result_defs(b):
    """(site, expression, facts) for every value the function can return, traced back through copies to where it was
    produced (an aggregate statement or a call), with the path facts that hold there"""
    out = []
    seen = set()
    for r in b.returns:
        for dsite, kind in b.origins(0, (r, b.term_idx(r))):
            if dsite is None or dsite in seen:
                continue
            seen.add(dsite)
            blk = b.blocks[dsite[0]]
            if kind == "call":
                e = b.expr_call(blk["term"], dsite)
            else:
                e = b.expr_rvalue(blk["stmts"][dsite[1]]["rv"], dsite)
            facts = b.facts_at(dsite)
            core = strip_load(e)
            if core[0] == "phi":
                for a in core[1]:
                    out.append((dsite, strip_load(a), facts))
            else:
                out.append((dsite, core, facts))
    return out


def is_param_vertex(x, n):
    v = vertex_of(x)
    return v is not None and strip_load(v[0]) == ("param", 1) and strip_load(v[1]) == ("param", n)


def unaddr(b, e):
    e = strip_load(e)
    if e[0] == "addr":
        return strip_load(b.expr_local(e[1], e[2]))
    return e


def rw1(F, R, only_stop=False):
    c = G.context(F)
    if not G.need_mutators(c, R, "RW1", ("bind",)):
        return
    b = c.mut["bind"]
    ins = [e for e in c.ev["bind"] if e.kind == "edges_call"]

    def insert_that_stops_when_full(e):
        """micromap's `insert` (asserts room for a new key), or `checked_insert` whose `None` (= full, key absent) is unwrapped"""
        if e.op == "insert":
            return True
        if e.op != "checked_insert":
            return False
        raw = getattr(e, "raw", None)
        site = raw.site if raw is not None else e.site
        for u in c.raw["bind"]:
            if u.kind == "call" and u.name in ("unwrap", "expect") and u.args and \
                    mentions(u.args[0], lambda x: x[0] == "call" and x[1].endswith("::checked_insert") and len(x) > 3 and x[3] == site[0]):
                return True
        return None
    ok = [e for e in ins if e.op in ("insert", "checked_insert") and is_param_vertex(e.x, 2) and len(e.args) == 2 and
          strip_load(e.args[0]) == ("param", 4) and strip_load(e.args[1]) == ("param", 3)]
    if only_stop:
        # C07's clause only: every edge insert of bind() stops with a panic when the vertex is full
        for e in ins:
            if e.op in ("insert", "checked_insert") and insert_that_stops_when_full(e):
                R.ok("RW1", e.where(), "the edge insert stops with a panic when the vertex already has N labels")
            elif e.op in ("insert", "checked_insert"):
                R.bad("RW1", "RW1/Sodg::bind/edge-insert-may-be-dropped", e.where(),
                      "bind() uses the non-panicking `checked_insert` and ignores its answer: the limit overrun does not stop with a panic")
            elif e.op not in ("clear", "remove", "get", "iter", "len", "contains_key", "is_empty"):
                R.bad("RW1", "RW1/Sodg::bind/edge-write-shape/%s" % e.op, e.where(), "bind() changes an edge map by an unrecognised operation")
        R.floor("RW1", "edge inserts in bind()", len(ins), 1, b.where())
        # ... and bind() stops a call only for a documented precondition or for the (N+1)-th label: no other always-compiled assertion
        for f, bi in b.compiled_assertions():
            if is_documented_precondition(b, f) or (f[0] == "bool" and strip_load(f[1])[0] == "ovf"):
                continue
            ce = strip_load(f[1]) if f[0] == "bool" else None
            if ce is not None and f[2] is True and ce[0] == "call" and ce[1].split("::")[-1] == "contains_key" and \
                    mentions(ce[2][0], lambda x: x[0] == "field" and x[2] == "Vertex::edges"):
                continue        # the second disjunct of `edges.len() < N || edges.contains_key(label)` (ND3 checks the shape)
            if f[0] == "in" and strip_load(f[1])[0] == "discr":
                continue        # unwrap-like tests of lookups (slot exists, free slot found)
            R.bad("RW1", "RW1/Sodg::bind/may-panic-within-limits", b.where((bi, 0)),
                  "bind() asserts %s: a call within the limits (e.g. re-binding an existing label on a vertex that has N labels) stops with a "
                  "panic" % show(f, b)[:140])
        return
    dropped = False
    for e in list(ok):
        if insert_that_stops_when_full(e) is None:
            ok.remove(e)
            R.bad("RW1", "RW1/Sodg::bind/edge-insert-may-be-dropped", e.where(),
                  "bind() uses the non-panicking `checked_insert` and ignores its answer: on a vertex that already has N labels the edge "
                  "is silently not recorded (kid() misses it) and the limit overrun does not stop with a panic")
            dropped = True
    for e in ins:
        if e not in ok:
            R.bad("RW1", "RW1/Sodg::bind/edge-write-shape/%s" % e.op, e.where(),
                  "bind(v1, v2, a) changes an edge map other than by `edges(v1).insert(a, v2)`",
                  {"target": show(e.x, e.body), "args": [show(a, e.body) for a in e.args]})
    if not ok and not dropped:
        R.bad("RW1", "RW1/Sodg::bind/no-edge-insert", b.where(), "bind(v1, v2, a) does not perform edges(v1).insert(a, v2)")
    for e in ok:
        guards = e.conditions()
        if not e.uncond or guards:
            R.bad("RW1", "RW1/Sodg::bind/edge-insert-conditional", e.where(),
                  "the edge is recorded only on some paths of bind(): kid() misses an edge that was bound",
                  {"guards": [show(f, e.body) for f in guards]})
        else:
            R.ok("RW1", e.where(), "bind(v1, v2, a): edges(v1).insert(a, v2), unconditionally, with exactly its parameters")
    R.floor("RW1", "edge inserts in bind()", len(ins), 1, b.where())


def rw2(F, R):
    b = F.fn("Sodg", "kid")
    if b is None:
        R.missing("RW2", "Sodg::kid")
        return
    R.analysed(b, sum(1 for _ in b.sites()))
    defs = result_defs(b)
    somes = [(s, e, f) for s, e, f in defs if e[0] == "agg" and e[2] == "Some"]
    nones = [(s, e, f) for s, e, f in defs if e[0] == "agg" and e[2] == "None"]
    other = [(s, e, f) for s, e, f in defs if not (e[0] == "agg" and e[2] in ("Some", "None"))]
    # accepted alternative: edges(v).iter().find(|e| *e.0 == a).map(|e| *e.1)
    rest = []
    for s0, e0, f0 in other:
        c0 = strip_load(e0)
        okalt = False
        if c0[0] == "optmap" and strip_load(c0[2])[0] == "find":
            fnd = strip_load(c0[2])
            proj = strip_load(c0[1])
            src = iter_source(fnd[1])
            cl = strip_load(fnd[2])
            cb = F.bodies.get(cl[1]) if cl[0] == "closure" else None
            src_ok = src is not None and strip_load(src)[0] == "field" and strip_load(src)[2] == "Vertex::edges" and \
                is_param_vertex(strip_load(src)[1], 2) and not iter_adaptors(fnd[1])
            proj_ok = proj[0] == "field" and proj[2] == "(tuple)::1" and strip_load(proj[1])[0] == "item"
            eq_ok = False
            if cb is not None:
                env = {("upvar", i): (b.expr_local(u[1], u[2]) if u[0] == "addr" else u) for i, u in enumerate(cl[2])}
                summ = pred_summary(cb) if not cb.locals[0]["ty"].startswith("std::option::Option") else (some_summary(cb) or [])
                if len(summ) == 1:
                    for f in summ[0]:
                        if f[0] == "cmp" and f[1] == "==":
                            l, r = unload(subst(f[2], env)), unload(subst(f[3], env))
                            for x, y in ((l, r), (r, l)):
                                if x == ("param", 3) and y[0] == "field" and y[2] == "(tuple)::0" and mentions(y, lambda z: z == ("param", 2)):
                                    eq_ok = True
            if src_ok and proj_ok and eq_ok:
                okalt = True
                R.ok("RW2", b.where(s0), "kid(v, a) = target of the first edge of v whose label == a (find + map)")
            elif src_ok and proj_ok:
                okalt = True
                R.bad("RW2", "RW2/Sodg::kid/not-guarded-by-label-equality", b.where(s0),
                      "kid(v, a) returns an edge's target without the edge's label being equal to `a`", {"value": show(e0, b)})
        if not okalt:
            rest.append((s0, e0, f0))
    other = rest
    if other:
        # accepted alternative: a lookup of the label in the vertex's own edge map
        for s, e, f in other:
            look = [x for x in walk(e) if x[0] == "call" and x[1].split("::")[-1] in ("get", "find", "get_key_value") and
                    mentions(x, lambda y: y[0] == "field" and y[2] == "Vertex::edges")]
            if look and mentions(e, lambda y: y == ("param", 3)):
                R.ok("RW2", b.where(s), "kid(): lookup of the label in the vertex's edge map")
            else:
                R.bad("RW2", "RW2/Sodg::kid/result-shape", b.where(s), "cannot establish RW2: unrecognised result of kid()", {"value": show(e, b)})
        return
    if not somes and not nones:
        return
    R.floor("RW2", "Some(..) results of kid()", len(somes), 1, b.where())
    for s, e, facts in somes:
        pay = strip_load(dict(e[3])["0"])
        okp = pay[0] == "field" and pay[2] == "(tuple)::1" and strip_load(pay[1])[0] == "item"
        item = strip_load(pay[1]) if okp else None
        src = iter_source(item[1]) if item else None
        oks = src is not None and strip_load(src)[0] == "field" and strip_load(src)[2] == "Vertex::edges" and is_param_vertex(strip_load(src)[1], 2)
        ads = iter_adaptors(item[1]) if item else []
        eq = None
        for f in facts:
            if f[0] == "cmp" and f[1] == "==":
                l, r = unaddr(b, f[2]), unaddr(b, f[3])
                for x, y in ((l, r), (r, l)):
                    if x == ("param", 3) and y[0] == "field" and y[2] == "(tuple)::0" and item is not None and strip_sites(strip_load(y[1])) == strip_sites(item):
                        eq = f
        detail = {"value": show(e, b), "guards": [show(f, b) for f in facts]}
        if not (okp and oks):
            R.bad("RW2", "RW2/Sodg::kid/target-not-from-own-edges", b.where(s), "kid(v, a) returns something other than the target of an edge of v", detail)
        elif ads:
            R.bad("RW2", "RW2/Sodg::kid/edges-restricted", b.where(s), "kid() does not search all edges of the vertex (%s)" % [a for a, _ in ads], detail)
        elif eq is None:
            R.bad("RW2", "RW2/Sodg::kid/not-guarded-by-label-equality", b.where(s),
                  "kid(v, a) returns an edge's target without the edge's label being equal to `a`", detail)
        elif [f for f in facts if f is not eq and mentions(f, lambda z: strip_sites(z) == strip_sites(item)) and
              not (f[0] == "in" and strip_load(f[1])[0] == "discr")]:
            R.bad("RW2", "RW2/Sodg::kid/edge-accepted-under-extra-condition", b.where(s),
                  "kid(v, a) accepts the edge labelled `a` only under a further condition on the edge: an existing edge can be missed", detail)
        else:
            R.ok("RW2", b.where(s), "kid(v, a) = Some(target of the edge of v whose label == a)", detail)
    for s, e, facts in nones:
        exhausted = any(f[0] == "in" and f[2] == frozenset(["None"]) and is_iter_next(f[1]) for f in facts)
        # `find(..)` over all edges of the vertex answered None: nothing satisfied the predicate (which the Some side
        # shows to be the label equality)
        for f in facts:
            if f[0] == "in" and f[2] == frozenset(["None"]) and strip_load(f[1])[0] == "discr" and strip_load(strip_load(f[1])[1])[0] == "find":
                fnd = strip_load(strip_load(f[1])[1])
                src = iter_source(fnd[1])
                if src is not None and strip_load(src)[0] == "field" and strip_load(src)[2] == "Vertex::edges" and \
                        is_param_vertex(strip_load(src)[1], 2) and not iter_adaptors(fnd[1]) and somes:
                    exhausted = True
        if exhausted:
            R.ok("RW2", b.where(s), "kid() = None only after all edges were compared")
        else:
            R.bad("RW2", "RW2/Sodg::kid/none-before-exhaustion", b.where(s), "kid() can answer None before every edge of the vertex was compared",
                  {"guards": [show(f, b) for f in facts]})


def is_iter_next(e):
    c = strip_load(e)
    return c[0] == "discr" and strip_load(c[1])[0] == "next"


def rw3(F, R):
    b = F.fn("Sodg", "kids")
    if b is None:
        R.missing("RW3", "Sodg::kids")
        return
    R.analysed(b, sum(1 for _ in b.sites()))
    for s, e, facts in result_defs(b):
        c = strip_load(e)
        src = iter_source(c) if c[0] in ("iter", "adapt") else None
        ads = iter_adaptors(c) if c[0] in ("iter", "adapt") else ["?"]
        ok = src is not None and strip_load(src)[0] == "field" and strip_load(src)[2] == "Vertex::edges" and is_param_vertex(strip_load(src)[1], 2)
        if ok and not ads:
            R.ok("RW3", b.where(s), "kids(v) is the iterator over the edge map of v, unfiltered")
        else:
            R.bad("RW3", "RW3/Sodg::kids/not-the-edge-iterator", b.where(s),
                  "kids(v) is not exactly the iteration over all edges of v (adaptors: %s)" % [a[0] if isinstance(a, tuple) else a for a in ads],
                  {"value": show(e, b)})


def rw45(F, R):
    c = G.context(F)
    if not G.need_mutators(c, R, "RW4", ("put", "data")):
        return
    put = c.mut["put"]
    dw = [e for e in c.ev["put"] if e.kind == "data_write"]
    R.floor("RW4", "data writes in put()", len(dw), 1, put.where())
    for e in dw:
        v = strip_load(e.val)
        okv = v[0] == "call" and v[1].split("::")[-1] == "clone" and strip_load(v[2][0]) == ("param", 3)
        guards = e.conditions()
        if not is_param_vertex(e.x, 2) or not okv:
            R.bad("RW4", "RW4/Sodg::put/stored-value", e.where(), "put(v, d) does not store a copy of exactly `d` in v", {"value": show(e.val, e.body)})
        elif guards or not e.uncond:
            R.bad("RW4", "RW4/Sodg::put/store-conditional", e.where(), "put() stores the datum only on some paths", {"guards": [show(f, e.body) for f in guards]})
        else:
            R.ok("RW4", e.where(), "put(v, d): data(v) := d.clone(), unconditionally")
    # RW5
    data = c.mut["data"]
    seen = {}
    for s, e, facts in result_defs(data):
        arms = frozenset(["Stored", "Taken", "Empty"])      # read states this result can be returned in
        for f in facts:
            if f[0] == "in" and is_pers_discr_of(f[1]):
                arms = arms & f[2]
            if f[0] == "notin" and is_pers_discr_of(f[1]):
                arms = arms - f[2]
        arm = "+".join(sorted(arms)) if len(arms) < 3 else None
        if e[0] == "agg" and e[2] == "Some":
            pay = strip_load(dict(e[3])["0"])
            okp = pay[0] == "call" and pay[1].split("::")[-1] == "clone" and strip_load(pay[2][0])[0] == "field" and \
                strip_load(pay[2][0])[2] == "Vertex::data" and is_param_vertex(strip_load(pay[2][0])[1], 2)
            # the clone is taken before any write to that data in this call
            if okp and arms <= frozenset(["Stored", "Taken"]) and arms:
                for a in arms:
                    seen[a] = True
                R.ok("RW5", data.where(s), "data(v) in the %s arm returns a copy of data(v)" % arm)
            else:
                R.bad("RW5", "RW5/Sodg::data/returned-bytes/%s" % arm, data.where(s),
                      "data(v) returns something other than a copy of the datum stored in v (arm %s)" % arm, {"value": show(e, data)})
        elif e[0] == "agg" and e[2] == "None":
            if arms == frozenset(["Empty"]):
                seen["Empty"] = True
                R.ok("RW5", data.where(s), "data(v) = None exactly in the Empty arm")
            else:
                R.bad("RW5", "RW5/Sodg::data/none-for-present-datum", data.where(s),
                      "data(v) answers None for a vertex that holds a datum (arm %s)" % arm)
        else:
            R.bad("RW5", "RW5/Sodg::data/result-shape", data.where(s), "cannot establish RW5: unrecognised result", {"value": show(e, data)})
    for arm in ("Stored", "Taken", "Empty"):
        if arm not in seen:
            R.bad("RW5", "RW5/Sodg::data/arm-%s-missing" % arm, data.where(), "cannot establish RW5: no result found for the %s arm" % arm)
    # data() never writes the data field
    for e in c.ev["data"]:
        if e.kind == "data_write" and is_param_vertex(e.x, 2):
            R.bad("RW5", "RW5/Sodg::data/writes-data", e.where(), "data() overwrites the datum it reads")


def rw6(F, R):
    c = G.context(F)
    # data() may blank a removed member (accepted alternative idiom of GC7; GC8 checks it is only a reset of removed members)
    allow = {"edges_write": {"Sodg::bind", "Sodg::add", "Sodg::data"}, "edges_call": {"Sodg::bind", "Sodg::add", "Sodg::data"},
             "data_write": {"Sodg::put", "Sodg::add", "Sodg::data"}, "pers_write": {"Sodg::put", "Sodg::data", "Sodg::add"}}
    n = 0
    for e in c.all:
        if e.kind in allow:
            x = strip_load(e.x)
            in_graph = vertex_of(x) is not None or mentions(x, lambda y: y[0] == "field" and y[2] == "Sodg::vertices")
            if not in_graph:
                continue
            n += 1
            fk = e.fn_key()
            if fk in allow[e.kind]:
                continue
            if G.nontree_exempt_event(c, e):
                continue
            R.bad("RW6", "RW6/%s/%s" % (fk, e.kind), e.where(),
                  "%s changes a vertex's %s: only bind (edges) and put/data (datum, read status) and add (blank) may, so calls on "
                  "other vertices and queries cannot change what kid()/data() answer" % (fk, e.kind.split("_")[0]))
    R.floor("RW6", "edges/data/persistence writes on graph vertices", n, 3)
    R.ok("RW6", "(crate)", "all %d writes of edges/data/read status on graph vertices are in bind / put / data / add" % n)

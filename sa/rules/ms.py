"""C07: memory safety on the sodg side — MS1..MS5."""
import json
import os
import re
import subprocess
from core import *
from model import *
import gc_rules as G

HERE = os.path.dirname(os.path.abspath(__file__))
TABLE = json.load(open(os.path.join(os.path.dirname(HERE), "tables", "containers.json")))
CONTAINERS = ("emap", "micromap", "microstack")


def ms1(F, R):
    n = 0
    for u in F.unsafe:
        n += 1
        if u["from_expansion"] or not u["user"]:
            continue
        R.bad("MS1", "MS1/%s" % u["what"], u["span"],
              "the crate contains user-written unsafe code (%s): the memory-safety argument (every access goes through a "
              "bound-asserting container entry point) no longer covers it" % u["what"])
    R.ok("MS1", "(crate)", "no user-written unsafe block, unsafe fn, unsafe impl or extern block (%d expansion-generated sites ignored)" % n)
    for b in F.all_bodies():
        R.analysed(b)


def ms2(F, R):
    deny = {(d["krate"], d["name"]): d["why"] for d in TABLE["deny"]}
    n = 0
    for b in F.all_bodies():
        for site, t in b.calls():
            c = t["callee"]
            if "indirect" in c:
                continue
            if c.get("krate") in CONTAINERS:
                n += 1
                k = (c["krate"], c.get("name"))
                # inherent methods only (trait impl methods such as Iterator::next / IntoIterator are audited separately)
                if k in deny and not c.get("impl_trait"):
                    R.bad("MS2", "MS2/%s/%s::%s" % (fn_key(b), k[0], k[1]), b.where(site),
                          "call of %s::%s, which is on the container deny-list: %s" % (k[0], k[1], deny[k]))
                elif "unchecked" in (c.get("name") or ""):
                    R.bad("MS2", "MS2/%s/%s::%s" % (fn_key(b), k[0], k[1]), b.where(site), "call of an unchecked container entry point")
            if c.get("unsafe") and not t.get("exp") and not t.get("fn_exp"):
                R.bad("MS2", "MS2/%s/unsafe-callee/%s" % (fn_key(b), c.get("name")), b.where(site),
                      "user code calls the unsafe function %s" % c.get("path"))
    R.floor("MS2", "container call sites", n, 20)
    R.ok("MS2", "(crate)", "all %d call sites into emap/micromap/microstack use audited, bound-asserting entry points" % n)


def ms3(F, R):
    n = 0
    for b in F.all_bodies():
        for site, t in b.calls():
            c = t["callee"]
            if c.get("krate") == "microstack" and c.get("name") == "from_vec":
                n += 1
                a = b.call_args(t, site)[0]
                ln = G.literal_len(deref_addr(b, a), b)
                if ln is None or ln > 16:
                    R.bad("MS3", "MS3/%s/from_vec-not-a-small-literal" % fn_key(b), b.where(site),
                          "Stack::from_vec (which pushes without any capacity check) is called on something other than a literal of at "
                          "most 16 elements: a longer vector writes past the stack's array", {"arg": show(a, b)})
                else:
                    R.ok("MS3", b.where(site), "Stack::from_vec on a literal of %d element(s)" % ln)
    R.floor("MS3", "Stack::from_vec sites", n, 1)


def ms4(F, R):
    lock = os.path.join(os.environ.get("SODG_FACTS_REPO", os.environ.get("SODG_REPO", "/repo")), "Cargo.lock")
    try:
        txt = open(lock).read()
    except OSError:
        R.missing("MS4", "Cargo.lock")
        return
    pk = {}
    for m in re.finditer(r'\[\[package\]\]\nname = "([^"]+)"\nversion = "([^"]+)"\n(?:source = "[^"]*"\n)?(?:checksum = "([0-9a-f]+)")?', txt):
        pk.setdefault(m.group(1), []).append((m.group(2), m.group(3)))
    for name, a in TABLE["audited"].items():
        vs = pk.get(name, [])
        if (a["version"], a["checksum"]) in vs:
            R.ok("MS4", "Cargo.lock", "%s %s is locked at the audited checksum" % (name, a["version"]))
        else:
            R.bad("MS4", "MS4/%s/container-audit-stale" % name, "Cargo.lock",
                  "container audit stale: %s is locked at %s, the audit covers %s (%s…): the facts the rules rely on must be re-read"
                  % (name, vs, a["version"], a["checksum"][:12]))


def ms6(F, R):
    """a graph built inside the crate from the ids of another one (`slice`) has that graph's vertex capacity: every id that is
    in range for the source is in range for it (the containers check the range only in a debug-assertion build)"""
    n = 0
    for b in F.roots():
        if b.self_adt != "Sodg" or b.path in F.test_bodies or b.arg_count < 1 or "Sodg" not in b.locals[1]["ty"]:
            continue
        for e in Collector(F).collect(b):
            if e.kind != "call" or e.name != "empty" or not e.callee.get("local") or "Sodg" not in e.path or not e.args:
                continue
            n += 1
            a = strip_load(e.args[0])
            ok = a[0] == "call" and a[1].split("::")[-1] == "capacity" and a[2] and strip_load(a[2][0])[0] == "field" and \
                strip_load(a[2][0])[2] == "Sodg::vertices" and strip_load(strip_load(a[2][0])[1]) == ("param", 1)
            if ok:
                R.ok("MS6", e.where(), "%s: the new graph has the vertex capacity of `self`" % fn_key(b))
            else:
                R.bad("MS6", "MS6/%s/new-graph-capacity" % fn_key(b), e.where(),
                      "a graph that receives ids of `self` is not created with the vertex capacity of `self`: an id that is valid for the "
                      "source can be out of range for it (a panic in a debug build, an out-of-bounds write in a release build)",
                      {"capacity": show(a, e.body)[:200]})
    R.floor("MS6", "graphs constructed from the ids of another graph", n, 1)


MS7_IDS = {"add": (2,), "bind": (2, 3), "put": (2,), "data": (2,)}
MS7_LOOKUPS = ("get", "get_mut", "index", "index_mut")


def ms7(F, R):
    """check before change: in each of the four mutators, every id parameter is looked up in the vertex table (the lookup is what
    stops an id at or above the capacity, with a panic, in a debug-assertion build) on every path *before* the first change of the
    graph.  A mutator that changes the graph first and is stopped afterwards leaves the change behind: the next call, although within
    the limits, meets a graph no call sequence within the limits can build (an edge to an id beyond the capacity) and does not
    complete."""
    import gc_rules as G
    c = G.context(F)
    n = 0
    for m, ids in MS7_IDS.items():
        b = c.mut.get(m)
        if b is None:
            R.missing("MS7", "Sodg::" + m)
            continue
        R.analysed(b)
        look = {k: [] for k in ids}
        for e in c.raw[m]:
            if e.kind == "call" and e.krate == "emap" and e.name in MS7_LOOKUPS and len(e.args) >= 2:
                a0, a1 = strip_load(e.args[0]), strip_load(e.args[1])
                if a0[0] == "field" and a0[2] == "Sodg::vertices" and strip_load(a0[1]) == ("param", 1) and a1[0] == "param" and a1[1] in look:
                    look[a1[1]].append(e)
        for k in ids:
            if not look[k]:
                R.bad("MS7", "MS7/Sodg::%s/id-parameter-%d-never-looked-up" % (m, k - 1), b.where(),
                      "%s() never looks its id parameter #%d up in the vertex table: an id at or above the capacity is not stopped" % (m, k - 1))
        for w in c.ev[m]:
            for k in ids:
                if not look[k]:
                    continue
                n += 1
                if any(ev_dominates(l, w) for l in look[k]):
                    continue
                R.bad("MS7", "MS7/Sodg::%s/change-before-lookup-of-parameter-%d/%s" % (m, k - 1, w.kind), w.where(),
                      "%s() changes the graph (%s) on a path on which its id parameter #%d has not yet been looked up in the vertex table: "
                      "if that id is at or above the capacity the call is stopped only afterwards and the change stays — later calls "
                      "within the limits then fail on a graph no legal sequence can build" % (m, w.kind, k - 1),
                      {"lookups": [l.where() for l in look[k]]})
    R.floor("MS7", "(change, id parameter) pairs of the mutators examined", n, 20)
    R.ok("MS7", "(ops)", "every change of the graph in add/bind/put/data is dominated by the table lookup of each id parameter (%d pairs)" % n)


def ms8(F, R):
    """microstack's iterators (`Stack::iter`, `Stack::into_iter`) hold a raw pointer into the stack they were made from and carry no
    lifetime (audited, DESIGN §3): the borrow checker does not keep the stack alive for them.  An iterator made from a stack that is
    a *local value* of the function (a clone, a freshly built list) must therefore not leave that function: returned, it points into
    a dead stack frame, and every use of it reads freed memory.  Iterators over the lists inside the graph's own table are fine: the
    table lives on the heap and outlives the call."""
    n = 0
    for b in F.all_bodies():
        for site, t in b.calls():
            c = t["callee"]
            if c.get("krate") != "microstack" or c.get("name") not in ("iter", "into_iter", "iter_mut"):
                continue
            n += 1
            recv = strip_load(deref_addr(b, b.call_args(t, site)[0]))
            in_table = mentions(recv, lambda x: x[0] == "field" and x[2] == "Sodg::branches") and recv[0] in ("elem", "field", "item", "some")
            root = recv
            for _ in range(12):
                if root[0] in ("field", "elem", "item", "some", "deref", "load", "iter", "vfield") and len(root) > 1 and isinstance(root[1], tuple):
                    root = strip_load(root[1])
                else:
                    break
            if in_table or root[0] in ("param", "upvar"):
                R.ok("MS8", b.where(site), "%s: iterator over a member list that belongs to the graph / to the caller" % fn_key(b))
                continue
            # the iterator itself leaves the function only if the function's result type carries it
            rty = b.locals[0]["ty"]
            if not ("microstack" in rty and "Iter" in rty):
                R.ok("MS8", b.where(site), "%s: iterator over a local stack, consumed within the function" % fn_key(b))
                continue
            me = lambda x: (x[0] == "call" and x[1] == c.get("path") and len(x) > 3 and x[3] == site[0]) or \
                (x[0] == "iter" and strip_sites(strip_load(x[1])) == strip_sites(recv))
            escapes = any(mentions(b.expr_local(0, (r, b.term_idx(r))), me) for r in b.returns)
            if escapes:
                R.bad("MS8", "MS8/%s/stack-iterator-outlives-its-stack" % fn_key(b), b.where(site),
                      "an iterator of microstack (a raw pointer without a lifetime) is made from a stack that is a local value of this "
                      "function and returned: it points into a dead stack frame, every use of it reads freed memory",
                      {"stack": show(recv, b)[:160]})
            else:
                R.ok("MS8", b.where(site), "%s: iterator over a local stack, used within the function" % fn_key(b))
    R.floor("MS8", "microstack iterator constructions", n, 2)


def ms5(F, R):
    sodg = F.adts.get("Sodg")
    if sodg is None:
        R.missing("MS5", "struct Sodg")
        return
    fields = {f["name"]: f["ty"] for f in sodg["variants"][0]["fields"]}
    for key, want in TABLE["element_types"].items():
        f = key.split("::")[1]
        got = fields.get(f)
        # a named constant in a const-generic position is its value: `Stack<usize, MAX_BRANCHES>` = `Stack<usize, 16>` (the *size* is
        # LM's business; this rule is about the element type)
        def norm(t):
            import re as _re
            if t is None:
                return None
            def val(m):
                nm = m.group(0).split("::")[-1]
                audited = {"MAX_BRANCH_SIZE": 16, "MAX_BRANCHES": 16}       # the values at the time of the audit
                return str(F.consts[nm]) if nm in F.consts else str(audited[nm]) if nm in audited else m.group(0)
            return _re.sub(r"\b[A-Za-z_][\w:]*\b", val, t)
        if got == want or norm(got) == norm(want):
            R.ok("MS5", sodg["span"], "%s : %s (element type for which the containers' bitwise reads are sound)" % (key, want))
        else:
            R.bad("MS5", "MS5/%s/element-type" % key, sodg["span"],
                  "%s has type %s; the audit of microstack's bitwise element reads covers %s only" % (key, got, want))


def ms_cross(F, R):
    """thorough tier: the same who-may-call rule by a configured generic lint (clippy disallowed_methods)"""
    if os.environ.get("VERIF_TIER_RUNNING") != "thorough":
        return
    import runner
    env = runner.env_base()
    env["CLIPPY_CONF_DIR"] = os.path.join(os.path.dirname(HERE), "clippy")
    env["CARGO_TARGET_DIR"] = os.path.join(runner.WORK, "target-clippy")
    env["RUSTFLAGS"] = "--cap-lints=warn"
    p = subprocess.run(["cargo", "+nightly", "clippy", "--offline", "--lib", "--message-format=short", "--",
                        "-W", "clippy::disallowed_methods", "-A", "clippy::all", "-A", "clippy::pedantic", "-A", "clippy::nursery",
                        "-A", "clippy::cargo"],
                       cwd=runner.REPO, env=env, capture_output=True, text=True)
    hits = [l for l in p.stderr.splitlines() if "disallowed method" in l or "clippy::disallowed_methods" in l and "warning:" in l and "-W" not in l]
    if p.returncode != 0:
        R.note("clippy cross-check did not run: " + p.stderr[-300:])
        R.ok("MS2x", "(clippy)", "cross-check skipped: clippy run failed (not a verdict)")
    elif hits:
        R.bad("MS2x", "MS2x/clippy-disallowed-methods", hits[0].split(" ")[0], "clippy disallowed_methods cross-check reports: %s" % hits[0])
    else:
        R.ok("MS2x", "(clippy)", "clippy disallowed_methods (same deny-list) reports nothing")

"""C05: next_id — NX1..NX5;  C10: clone — CL1..CL4."""
from core import *
from model import *
import gc_rules as G


def nx1(F, R):
    c = G.context(F)
    n = 0
    for e in c.all:
        if e.kind == "sodg_field_write" and e.field == "Sodg::next_v":
            n += 1
            fk = e.fn_key()
            if G.building_a_copy(e, fk):
                R.ok("NX1", e.where(), "allocator position of a freshly constructed copy set in clone()")
            elif fk != "Sodg::next_id":
                R.bad("NX1", "NX1/%s/allocator-position-written" % fk, e.where(),
                      "the allocator position is written outside next_id(): ids handed out earlier can be handed out again",
                      {"value": show(e.val, e.body)})
            else:
                R.ok("NX1", e.where(), "allocator position written in next_id()")
        elif e.kind == "sodg_deep_write" and e.d.get("field") == "Sodg::next_v":
            R.bad("NX1", "NX1/%s/allocator-position-written" % e.fn_key(), e.where(), "allocator position written through a reference")
    R.floor("NX1", "writes of the allocator position", n, 1)
    # who takes &mut to it
    for e in c.allraw:
        if e.kind == "call":
            for a in e.args:
                a0 = strip_load(a)
                if a0[0] == "field" and a0[2] == "Sodg::next_v" and e.fn_key() != "Sodg::next_id" and not e.exp:
                    # passing the location (not its value) to a callee
                    pass


def returned_exprs(b):
    out = []
    for r in b.returns:
        e = strip_load(b.expr_local(0, (r, b.term_idx(r))))
        out += list(e[1]) if e[0] == "phi" else [e]
    return out


def nx23(F, R):
    b = F.fn("Sodg", "next_id")
    if b is None:
        R.missing("NX2", "Sodg::next_id")
        return
    col = Collector(F)
    raw = col.collect(b)
    R.analysed(b, len(raw))
    rets = returned_exprs(b)
    if len(rets) != 1:
        R.bad("NX2", "NX2/Sodg::next_id/several-results", b.where(), "cannot establish NX2: next_id() returns one of several expressions",
              {"returns": [show(e, b) for e in rets]})
        return
    rid = rets[0]
    detail = {"returned": show(rid, b)}
    # the id is (computed from) an item of a search over this graph's vertex store: by find()/find_map(), by a loop, through
    # filter / map / skip_while adaptors.  X stands for the store element (key, vertex) the search stopped at.
    items = [x for x in walk(rid) if x[0] == "item" and iter_source(x[1]) is not None]
    item = items[0] if items else None
    if item is None and range_search(F, b, raw, rid, R, detail):
        nx3_writes(F, R, b, raw, rid)
        return
    if item is None:
        R.bad("NX2", "NX2/Sodg::next_id/not-a-store-search", b.where(), "cannot establish NX2: the returned id is not the key of an item of a search over the vertex store", detail)
        return
    src = iter_source(item[1])
    ads = iter_adaptors(item[1])
    if src is None or strip_load(src)[0] != "field" or strip_load(src)[2] != "Sodg::vertices" or strip_load(strip_load(src)[1]) != ("param", 1):
        R.bad("NX2", "NX2/Sodg::next_id/search-not-over-own-store", b.where(), "the id search does not walk this graph's vertex store", detail)
        return
    X = ("X",)
    cur = X
    facts = set()
    unknown = []

    def closure_env(cl):
        env = {}
        for ui, uop in enumerate(cl[2]):
            env[("upvar", ui)] = b.expr_local(uop[1], uop[2]) if uop[0] == "addr" else uop
        return env
    for an, ex in ads:
        cl = strip_load(ex[0]) if ex else None
        cbx = F.bodies.get(cl[1]) if cl is not None and cl[0] == "closure" else None
        if an in ("copied", "cloned", "collect", "by_ref", "peekable", "fuse"):
            continue
        if cbx is None:
            unknown.append(an)
            continue
        summ = pred_summary(cbx) if an in ("filter", "skip_while") else None
        env = closure_env(cl)
        env[("param", 2)] = cur
        if an == "filter" and summ is not None and len(summ) == 1:
            facts |= {unload(subst(f, env)) for f in summ[0]}
        elif an == "skip_while" and summ is not None and len(summ) == 1 and len([f for f in summ[0] if "Level" not in repr(f)]) == 1:
            # items are skipped while `key < bound`: on the ascending keys of the store this is the filter `key >= bound`
            f0 = unload(subst([f for f in summ[0]][0], env))
            keyside = f0[0] == "cmp" and f0[1] in ("<", "<=") and mentions(f0[2], lambda x: x == X) and not mentions(f0[3], lambda x: x == X)
            if keyside:
                facts.add(negate_fact(f0))
            else:
                unknown.append(an)
        elif an == "map":
            proj = closure_projection(b, cl)
            if proj is not None:
                cur = resimplify(unload(subst(proj, {("param", 2): cur})))
            else:
                unknown.append(an)
        else:
            unknown.append(an)
    if unknown:
        R.bad("NX2", "NX2/Sodg::next_id/search-restricted", b.where(), "the id search skips part of the store (%s)" % unknown, detail)
    # what is known about the item where the function returns, in terms of X
    rfacts = set()
    for r in b.returns:
        fs = b.facts_at((r, b.term_idx(r)))
        rfacts = set(fs) if not rfacts else (rfacts & set(fs))
    istr = strip_sites(item)

    def to_x(e):
        """rewrite the search item to its value in terms of the store element X"""
        if not isinstance(e, tuple) or not e or isinstance(e, frozenset):
            return e
        if e[0] == "load":
            return to_x(e[1])
        if e[0] == "item" and strip_sites(e) == istr:
            return cur
        return tuple(to_x(x) if isinstance(x, tuple) and not isinstance(x, frozenset) else x for x in e)
    for f in rfacts:
        if mentions(strip_sites(f), lambda x: x == istr):
            g = resimplify(to_x(f))
            # keep the original load wrappers of the position operand for the pre-state test
            facts.add((g, f))
    xfacts = []
    for f in facts:
        xfacts.append(f if (len(f) == 2 and isinstance(f[0], tuple) and isinstance(f[1], tuple) and f[0] and f[0][0] in ("in", "notin", "cmp", "bool")) else (f, f))
    rid_x = resimplify(to_x(rid))
    key_x = ("field", X, "(tuple)::0")
    if strip_sites(rid_x) != key_x:
        R.bad("NX2", "NX2/Sodg::next_id/not-a-store-search", b.where(),
              "cannot establish NX2: the returned id is not the key of the store element the search stopped at", dict(detail, in_terms_of_element=show(rid_x, b)))
        return

    def tag_of_x(e):
        e = strip_load(e)
        return e[0] == "field" and e[2] == "Vertex::branch" and strip_load(e[1]) == ("field", X, "(tuple)::1")

    def key_of_x(e):
        return strip_sites(strip_load(e)) == key_x
    absent = any(g[0] == "in" and g[2] == frozenset([0]) and tag_of_x(g[1]) for g, _ in xfacts)
    bound = False
    for g, orig in xfacts:
        if g[0] == "cmp" and g[1] == "<=" and key_of_x(g[3]):
            # the lower bound must be the allocator position read before the search
            lo = orig[2] if orig[0] == "cmp" and orig[1] == "<=" else g[2]
            if is_prestate_position(lo, b, raw) or is_prestate_position(g[2], b, raw):
                bound = True
    facts = {g for g, _ in xfacts}
    shown = {"known about the store element X the search stopped at": [show(f, b) for f in sorted(facts, key=repr) if "Level" not in repr(f)][:8]}
    if not absent:
        R.bad("NX2", "NX2/Sodg::next_id/predicate-no-absent-test", b.where(),
              "the slot whose key is returned is not tested to be absent (tag == 0): next_id() can return a present id", shown)
    if not bound:
        R.bad("NX2", "NX2/Sodg::next_id/predicate-no-position-bound", b.where(),
              "the key returned is not required to be >= the allocator position read before the search: next_id() can return an id "
              "it returned before", shown)
    if absent and bound:
        R.ok("NX2", b.where(), "id = key of a store item with tag ∈ {0} and key >= pre-state allocator position", shown)
    nx3_writes(F, R, b, raw, rid)


def range_search(F, b, raw, rid, R, detail):
    """the id is found by `(P..capacity()).find(|v| vertices.get(*v) is present-slot-with-tag-0)` (or `P..=capacity()-1`): every id from
    the pre-state position up to the last slot is tried in ascending order, and the one returned is absent.  Returns True (and
    records NX2) iff recognised."""
    core = strip_load(rid)
    if core[0] != "item" or not (isinstance(core[2], tuple) and core[2] and core[2][0] == "find"):
        return False
    rg = strip_load(core[1])
    cap = lambda x: strip_load(x)[0] == "call" and strip_load(x)[1].split("::")[-1] == "capacity" and \
        strip_load(strip_load(x)[2][0])[0] == "field" and strip_load(strip_load(x)[2][0])[2] == "Sodg::vertices" and \
        strip_load(strip_load(strip_load(x)[2][0])[1]) == ("param", 1)
    start = end_ok = None
    if rg[0] == "agg" and rg[1] == "Range":
        fs = dict(rg[3])
        start, end_ok = fs.get("start"), cap(fs.get("end", ("?",)))
    elif rg[0] == "call" and rg[1].endswith("::new") and len(rg[2]) == 2 and "RangeInclusive" in (rg[1] + show(rg, b)):
        start = rg[2][0]
        e2 = strip_load(rg[2][1])
        end_ok = e2[0] == "binop" and e2[1] == "Sub" and strip_load(e2[3]) == ("const", 1) and cap(e2[2])
    elif rg[0] == "call" and rg[1].endswith("::new") and len(rg[2]) == 2:
        # `<Idx>::new` is how RangeInclusive::new prints with its generic parameter
        start = rg[2][0]
        e2 = strip_load(rg[2][1])
        end_ok = e2[0] == "binop" and e2[1] == "Sub" and strip_load(e2[3]) == ("const", 1) and cap(e2[2])
    else:
        return False
    if start is None or not is_prestate_position(start, b, raw):
        R.bad("NX2", "NX2/Sodg::next_id/range-start-not-the-position", b.where(), "the id search does not start at the pre-state allocator position", detail)
        return True
    if not end_ok:
        R.bad("NX2", "NX2/Sodg::next_id/range-end-not-the-capacity", b.where(),
              "the id search does not run up to the last slot (capacity − 1): an absent id below the capacity is never handed out", detail)
        return True
    # the predicate: the slot of the candidate holds a vertex whose tag is 0
    fb = core[2][1]
    t = b.blocks[fb]["term"]
    cl = strip_load(deref_addr(b, b.call_args(t, (fb, b.term_idx(fb)))[1])) if t["k"] == "call" else None
    cb = F.bodies.get(cl[1]) if cl is not None and cl[0] == "closure" else None
    summ = pred_summary(cb) if cb is not None else []
    ok = False
    if len(summ) == 1:
        env = {("param", 2): ("X",)}
        for ui, uop in enumerate(cl[2]):
            env[("upvar", ui)] = b.expr_local(uop[1], uop[2]) if uop[0] == "addr" else uop
        absent = other = False
        for f in summ[0]:
            if "Level" in repr(f):
                continue
            g = unload(subst(f, env))
            subj = strip_load(g[1]) if g[0] in ("in", "notin", "bool") else None
            if g[0] == "in" and g[2] == frozenset([0]) and subj[0] == "field" and subj[2] == "Vertex::branch" and \
                    mentions(subj, lambda y: y[0] == "elem" and mentions(y, lambda z: z == ("X",)) and mentions(y, lambda z: z[0] == "field" and z[2] == "Sodg::vertices")):
                absent = True
            elif g[0] == "in" and g[2] == frozenset(["Some"]) and subj[0] == "discr":
                pass        # the slot exists
            else:
                other = True
        ok = absent and not other
    if not ok:
        R.bad("NX2", "NX2/Sodg::next_id/predicate-not-absent", b.where(), "the id search does not accept exactly the ids whose slot holds an absent vertex (tag 0)", detail)
    else:
        R.ok("NX2", b.where(), "id = first v in position..capacity with an absent vertex in its slot", detail)
    return True


def nx3_writes(F, R, b, raw, rid):
    # NX3: position := id + 1 on every path, or only skipped when already larger
    ws = [e for e in raw if e.kind == "write" and strip_load(e.loc)[0] == "field" and strip_load(e.loc)[2] == "Sodg::next_v"]
    if not ws:
        R.bad("NX3", "NX3/Sodg::next_id/position-never-advanced", b.where(), "next_id() never advances the allocator position: it returns the same id until that id is added")
        return
    for w in ws:
        val = strip_load(w.val)
        # position.max(id + 1) is "id + 1 unless already larger"
        if val[0] == "call" and val[1].split("::")[-1] == "max" and len(val[2]) == 2:
            parts = [strip_load(x) for x in val[2]]
            pos = [x for x in parts if x[0] == "field" and x[2] == "Sodg::next_v"]
            oth = [x for x in parts if not (x[0] == "field" and x[2] == "Sodg::next_v")]
            if len(pos) == 1 and len(oth) == 1:
                val = oth[0]
        okv = val[0] == "binop" and val[1] == "Add" and strip_load(val[3]) == ("const", 1) and strip_sites(strip_load(val[2])) == strip_sites(rid)
        d = {"value": show(w.val, b), "guards": [show(x, b) for x in sorted(w.facts, key=repr)]}
        if not okv:
            R.bad("NX3", "NX3/Sodg::next_id/position-not-id-plus-1", w.where(),
                  "the allocator position is not set to the returned id + 1: the same id can be returned again", d)
            continue
        badg = []
        for fct in w.facts:
            if fct[0] == "bool" and strip_load(fct[1])[0] == "ovf":
                continue
            # what is known about the item found is a consequence of the search, not a condition of the update
            if fct[0] in ("in", "notin") and is_tag_of(fct[1]) and mentions(fct[1], lambda x: x[0] == "item"):
                continue
            if fct[0] == "in" and strip_load(fct[1])[0] == "discr" and strip_load(strip_load(fct[1])[1])[0] in ("next", "find", "phi"):
                continue
            # what the search predicate established about the candidate's slot (it exists; its vertex is absent)
            if fct[0] == "in" and mentions(fct[1], lambda x: x[0] == "item") and \
                    mentions(fct[1], lambda x: x[0] == "elem" and mentions(x, lambda z: z[0] == "field" and z[2] == "Sodg::vertices")) and \
                    (fct[2] == frozenset(["Some"]) or (fct[2] == frozenset([0]) and strip_load(fct[1])[0] == "field" and strip_load(fct[1])[2] == "Vertex::branch")):
                continue
            if fct[0] == "cmp" and fct[1] in ("<=", "<") and strip_load(fct[3])[0] == "field" and strip_load(fct[3])[2] == "(tuple)::0" and \
                    mentions(fct[3], lambda x: x[0] == "item") and is_prestate_position(fct[2], b, raw):
                continue
            if fct[0] == "cmp":
                l, r = strip_load(fct[2]), strip_load(fct[3])
                is_pos = lambda x: x[0] == "field" and x[2] == "Sodg::next_v"
                # `pos < id + 1` skips the update only when it changes nothing or would move the position back; `pos <= id + 1`
                # differs from it only where pos == id + 1, and there the update writes the value already held
                if fct[1] in ("<", "<=") and is_pos(l) and strip_sites(r) == strip_sites(val):
                    continue
                if fct[1] == "<=" and is_pos(l) and strip_sites(r) == strip_sites(rid):
                    continue
            if asserted_precondition(w.body, fct, w.site):
                continue
            badg.append(show(fct, b))
        if badg:
            R.bad("NX3", "NX3/Sodg::next_id/position-update-conditional", w.where(),
                  "the allocator position is advanced only under a condition other than 'it is not already larger': %s" % badg, d)
        else:
            R.ok("NX3", w.where(), "position := id + 1 (skipped only when already larger)", d)



def excludes_all_but(conj, subj_pred, value):
    for f in conj:
        if f[0] == "in" and f[2] == frozenset([value]) and subj_pred(f[1]):
            return True
    return False


def simplify_env(e, env):
    e = strip_load(e)
    if e in env:
        return env[e]
    if e[0] == "load" and e[1] in env:
        return env[e[1]]
    return subst(e, env)


def is_prestate_position(e, b, raw):
    """e is the allocator position read before any write to it"""
    e0 = e
    core = strip_load(e)
    if not (core[0] == "field" and core[2] == "Sodg::next_v" and strip_load(core[1]) == ("param", 1)):
        return False
    ls = load_site(e0) if e0[0] == "load" else None
    if ls is None:
        return True
    for w in raw:
        if w.kind == "write" and w.body is b and strip_load(w.loc)[0] == "field" and strip_load(w.loc)[2] == "Sodg::next_v":
            if b.reaches(w.site, ls):
                return False
    return True


def nx5(F, R):
    """callers of next_id: merge's descent adds the id at once; script allocates once per variable name"""
    c = G.context(F)
    sites = [e for e in c.allraw if e.kind == "call" and e.name == "next_id" and e.callee.get("local")]
    R.floor("NX5", "internal callers of next_id()", len(sites), 2)
    for e in sites:
        fk = e.fn_key()
        body = e.body
        if fk.startswith("Script::"):
            # must be the closure of Entry::or_insert_with on Script::vars keyed by the variable's tail
            ok = False
            parent = F.bodies.get(body.parent) if body.kind == "Closure" else None
            if parent is not None:
                for site, t in parent.calls():
                    if t["callee"].get("name") == "or_insert_with":
                        args = parent.call_args(t, site)
                        ent = strip_load(deref_addr(parent, args[0]))
                        cl = strip_load(deref_addr(parent, args[1]))
                        if cl[0] == "closure" and cl[1] == body.path and ent[0] == "call" and ent[1].split("::")[-1] == "entry":
                            tbl = strip_load(ent[2][0])
                            key = ent[2][1]
                            if tbl[0] == "field" and tbl[2] == "Script::vars":
                                ok = True
            if not ok:
                # accepted alternative: `if let Some(id) = vars.get(name) { return id }; let id = next_id(); vars.insert(name, id)`
                miss = None
                for f in e.facts:
                    if f[0] == "in" and f[2] == frozenset(["None"]) and strip_load(f[1])[0] == "discr":
                        ce = strip_load(strip_load(f[1])[1])
                        if ce[0] == "call" and "HashMap" in ce[1] and ce[1].split("::")[-1] == "get" and \
                                strip_load(ce[2][0])[0] == "field" and strip_load(ce[2][0])[2] == "Script::vars":
                            miss = ce
                    if f[0] == "bool" and f[2] is False:
                        ce = strip_load(f[1])
                        if ce[0] == "call" and "HashMap" in ce[1] and ce[1].split("::")[-1] == "contains_key" and \
                                strip_load(ce[2][0])[0] == "field" and strip_load(ce[2][0])[2] == "Script::vars":
                            miss = ce
                if miss is not None:
                    idx = ("call", e.path, tuple(e.args), e.site[0])
                    for x in c.allraw:
                        if x.kind == "call" and x.name == "insert" and "HashMap" in x.path and x.body is e.body and len(x.args) == 3 and \
                                strip_load(x.args[0])[0] == "field" and strip_load(x.args[0])[2] == "Script::vars" and \
                                strip_sites(strip_load(x.args[2])) == strip_sites(idx) and \
                                strip_sites(unload(x.args[1])) == strip_sites(unload(miss[2][1])) and e.body.cooccur(e.site, x.site):
                            ok = True
                        # ... or stored with `vars.entry(name).or_insert(id)` on that same miss
                        if x.kind == "call" and x.name == "or_insert" and x.body is e.body and len(x.args) == 2 and \
                                strip_sites(strip_load(x.args[1])) == strip_sites(idx) and e.body.cooccur(e.site, x.site):
                            ent = strip_load(x.args[0])
                            if ent[0] == "call" and ent[1].split("::")[-1] == "entry" and strip_load(ent[2][0])[0] == "field" and \
                                    strip_load(ent[2][0])[2] == "Script::vars" and \
                                    strip_sites(unload(ent[2][1])) == strip_sites(unload(strip_load(deref_addr(e.body, miss[2][1])))):
                                ok = True
            if ok:
                R.ok("NX5", e.where(), "script: next_id() only as the default of vars.entry(name): one id per variable name")
            else:
                R.bad("NX5", "NX5/%s/fresh-id-not-memoised-by-variable" % fk, e.where(),
                      "a script variable is given a fresh id outside `vars.entry(name).or_insert_with(..)`: the same $variable "
                      "can stand for different vertices within one script")
        else:
            # id flows into add() on the same paths, before any other next_id()
            root = owner_body(body)
            evs = [x for x in c.allraw if x.body is body or x.root_body() is root]
            idexpr = None
            adds = []
            for x in c.allraw:
                if x.kind == "call" and x.name == "add" and x.callee.get("local") and x.body is body:
                    a = strip_load(x.args[1]) if len(x.args) > 1 else None
                    if a is not None and a[0] == "call" and a[1].endswith("::next_id") and a[3] == e.site[0]:
                        adds.append(x)
            if adds and all(body.cooccur(e.site, a.site) for a in adds):
                R.ok("NX5", e.where(), "%s: the id from next_id() is added on the same paths (next_id → add)" % fk)
            else:
                R.bad("NX5", "NX5/%s/fresh-id-not-added" % fk, e.where(),
                      "an id obtained from next_id() is not turned into a vertex by add() on the same paths: a later next_id() or "
                      "an explicit add can collide with it")


# ---------------------------------------------------------------- C10
SODG_FIELDS = ("stores", "branches", "vertices", "next_v")
SHARED_MARKERS = ("Rc", "Arc", "Cell", "RefCell", "Mutex", "RwLock", "Atomic", "UnsafeCell", "OnceCell", "LazyLock")


def cl1(F, R):
    # an overridden clone_from is a second way to copy a graph: it must set every field from the source as well
    cf = F.fn("Sodg", "clone_from", "std::clone::Clone")
    if cf is not None and not cf.derived:
        R.analysed(cf)
        raw = Collector(F).collect(cf)
        fields = [f["name"] for f in F.adts["Sodg"]["variants"][0]["fields"]]
        done = set()
        for e in raw:
            if e.kind == "write":
                loc, val = strip_load(e.loc), strip_load(e.val)
                if loc == ("param", 1) and mentions(val, lambda x: x == ("param", 2)) and e.uncond:
                    done |= set(fields)          # *self = source.clone()
                if loc[0] == "field" and loc[2].startswith("Sodg::") and strip_load(loc[1]) == ("param", 1) and e.uncond and \
                        mentions(val, lambda x: x[0] == "field" and x[2] == loc[2] and strip_load(x[1]) == ("param", 2)):
                    done.add(loc[2].split("::")[1])
        for f in fields:
            if f in done:
                R.ok("CL1", cf.where(), "clone_from() copies field %s from the source" % f)
            else:
                R.bad("CL1", "CL1/Sodg::clone_from/field-%s-not-copied" % f, cf.where(),
                      "the overridden clone_from() does not set `%s` from the source on every path: a graph filled with clone_from() is "
                      "not a copy of the source" % f)
    b = F.fn("Sodg", "clone", "std::clone::Clone")
    if b is None:
        # derived Clone is fine too
        imp = [i for i in F.impls if i["self_adt"] == "Sodg" and i["trait"] == "std::clone::Clone"]
        if imp and imp[0]["derived"]:
            R.ok("CL1", imp[0]["span"], "Clone for Sodg is derived (every field cloned)")
            return
        R.missing("CL1", "<Sodg as Clone>::clone")
        return
    R.analysed(b, sum(1 for _ in b.sites()))
    if b.derived:
        R.ok("CL1", b.where(), "Clone for Sodg is derived (every field cloned)")
        return
    aggs = []
    for site, kind, s in b.sites():
        if kind == "stmt" and s["k"] == "assign" and s["rv"]["k"] == "aggregate" and s["rv"].get("adt") == "Sodg":
            aggs.append((site, b.expr_rvalue(s["rv"], site)))
    fresh_writes = set()
    if not aggs:
        # a fresh graph from the constructor, then every field assigned: `let mut g = Self::empty(..); g.f = self.f.clone(); … g`
        rets0 = returned_exprs(b)
        fresh = strip_load(rets0[0]) if len(rets0) == 1 else None
        if fresh is not None and fresh[0] == "call" and fresh[1].split("::")[-1] == "empty" and "Sodg" in fresh[1]:
            got = {}
            for e2 in Collector(F).collect(b):
                if e2.kind == "write" and e2.body is b:
                    loc = strip_load(e2.loc)
                    if loc[0] == "field" and loc[2].startswith("Sodg::") and strip_sites(strip_load(loc[1])) == strip_sites(fresh):
                        fresh_writes.add(e2.site)
                        f = loc[2].split("::")[1]
                        if e2.uncond and not e2.conditions() and f not in got:
                            got[f] = e2.val
                        else:
                            got[f] = ("?",)
            aggs = [(b.returns[0] if False else (0, 0), ("agg", "Sodg", "Sodg", tuple(got.items())))]
            site_fresh = True
    if len(aggs) != 1:
        R.bad("CL1", "CL1/Sodg::clone/aggregate-count", b.where(), "cannot establish CL1: clone() builds %d Sodg values" % len(aggs))
        return
    site, e = aggs[0]
    n = 0
    fields = [f["name"] for f in F.adts["Sodg"]["variants"][0]["fields"]]
    got = dict(e[3])
    for f in fields:
        v = strip_load(got.get(f, ("?",)))
        src = None
        if v[0] == "call" and v[1].split("::")[-1] == "clone" and v[2]:
            src = strip_load(v[2][0])
        elif v[0] == "field":
            src = v
        ok = src is not None and src[0] == "field" and src[2] == "Sodg::" + f and strip_load(src[1]) == ("param", 1)
        if ok:
            n += 1
            R.ok("CL1", b.where(site), "clone: %s := copy of self.%s" % (f, f))
        else:
            R.bad("CL1", "CL1/Sodg::clone/field-%s-not-copied" % f, b.where(site),
                  "field `%s` of the clone is not a copy of the same field of the original: the copies behave differently "
                  "afterwards (%s)" % (f, {"next_v": "next_id() repeats or skips ids", "stores": "groups are collected at other moments",
                                           "branches": "group membership is lost", "vertices": "content differs"}.get(f, "")),
                  {"value": show(v, b)})
    R.floor("CL1", "fields copied by clone()", n + sum(1 for v in R.violations if v["rule"] == "CL1"), len(fields), b.where())
    # the value returned is that aggregate
    rets = returned_exprs(b)
    if not (len(rets) == 1 and rets[0][0] == "agg" and rets[0][1] == "Sodg") and not fresh_writes:
        R.bad("CL1", "CL1/Sodg::clone/returns-something-else", b.where(), "clone() does not return the field-wise copy it builds")
    # no other effect
    for s2, st in b.writes():
        if s2 in fresh_writes:
            continue
        R.bad("CL4", "CL4/Sodg::clone/write", b.where(s2), "clone() writes memory (%s)" % show(b.expr_place(st["lhs"], s2), b))


def fieldwise_clone(F, adt):
    """None if the hand-written `<adt as Clone>::clone` is what the derive would produce (every field / every variant's
    payload cloned from the same place of `self`); otherwise a description of the first deviation"""
    b = F.fn(adt, "clone", "std::clone::Clone")
    a = F.adts.get(adt)
    if b is None or a is None:
        return "no clone body"

    def same_place(v, want):
        v = strip_load(v)
        for _ in range(3):
            if v[0] == "call" and v[1].split("::")[-1] in ("clone", "to_owned", "to_vec") and v[2]:
                v = strip_load(v[2][0])
        return strip_sites(v) == strip_sites(want)
    aggs = []
    for site, kind, s in b.sites():
        if kind == "stmt" and s["k"] == "assign" and s["rv"]["k"] == "aggregate" and s["rv"].get("adt") == adt:
            aggs.append((site, b.expr_rvalue(s["rv"], site)))
    rets = returned_exprs(b)
    if any(strip_load(r)[0] == "param" for r in rets) and not aggs:
        return None     # `*self` of a Copy type
    seen = set()
    for site, e in aggs:
        var = e[2]
        vdecl = [v for v in a["variants"] if v["name"] == var]
        if not vdecl:
            return "unknown variant %s" % var
        if a["kind"] == "Enum":
            facts = b.facts_at(site)
            if len(a["variants"]) > 1 and not any(f[0] == "in" and f[2] == frozenset([var]) and strip_load(f[1])[0] == "discr" and
                                                   strip_load(strip_load(f[1])[1]) == ("param", 1) for f in facts):
                return "variant %s is built on a path where self is not known to be %s" % (var, var)
        for (fname, fe), fd in zip(e[3], vdecl[0]["fields"]):
            want = ("vfield", ("param", 1), var, fname) if a["kind"] == "Enum" else ("field", ("param", 1), "%s::%s" % (adt, fname))
            if not same_place(fe, want):
                return "field %s of %s is not a copy of the same field of self (%s)" % (fname, var, show(fe, b)[:120])
        seen.add(var)
    missing = [v["name"] for v in a["variants"] if v["name"] not in seen]
    if missing:
        return "variant(s) %s never produced" % missing
    for r in rets:
        r0 = strip_load(r)
        arms = list(r0[1]) if r0[0] == "phi" else [r0]
        if not all(strip_load(x)[0] == "agg" and strip_load(x)[1] == adt for x in arms):
            return "returns something other than the rebuilt value"
    return None


def cl23(F, R):
    for adt in ("Vertex", "Hex", "Label", "Persistence"):
        imp = [i for i in F.impls if i["self_adt"] == adt and i["trait"] == "std::clone::Clone"]
        if not imp:
            R.bad("CL2", "CL2/%s/Clone-missing" % adt, "(lib)", "%s does not implement Clone" % adt)
        elif not imp[0]["derived"]:
            why = fieldwise_clone(F, adt)
            # an overridden clone_from is a second definition of "a copy": it must leave `self` equal to the source, which no rule here
            # establishes for a buffer-reusing implementation (fail closed)
            cf = [b for b in F.all_bodies() if b.self_adt == adt and b.name == "clone_from" and b.trait and b.trait.endswith("Clone") and b.kind != "Closure"]
            if why is None and cf:
                why = "clone_from() is overridden (a buffer-reusing copy: bounds and lengths must be the source's, not the target's)"
            if why is None:
                R.ok("CL2", imp[0]["span"], "hand-written Clone for %s clones every field / variant payload from the same place (what the derive does)" % adt)
            else:
                R.bad("CL2", "CL2/%s/Clone-hand-written" % adt, imp[0]["span"],
                      "Clone for %s is hand-written and is not the field-wise copy the derive would produce: %s" % (adt, why))
        else:
            R.ok("CL2", imp[0]["span"], "Clone for %s is derived" % adt)
    # type closure of Sodg declared in this crate
    seen = set()
    todo = ["Sodg"]
    n = 0
    while todo:
        a = todo.pop()
        if a in seen or a not in F.adts:
            continue
        seen.add(a)
        for v in F.adts[a]["variants"]:
            for f in v["fields"]:
                n += 1
                for p in f["ty_parts"]:
                    if p.startswith("adt:"):
                        nm = p[4:].split("::")[-1]
                        if nm in F.adts:
                            todo.append(nm)
                        if nm in SHARED_MARKERS or any(nm.startswith(m) for m in ("Atomic",)):
                            R.bad("CL3", "CL3/%s::%s/shared-or-interior-mutable" % (a, f["name"]), F.adts[a]["span"],
                                  "field %s.%s contains %s: clones share state or change behind shared references" % (a, f["name"], nm))
                    if p in ("rawptr", "fnptr", "dyn") or p.startswith("ref:"):
                        R.bad("CL3", "CL3/%s::%s/%s" % (a, f["name"], p.replace(":", "-")), F.adts[a]["span"],
                              "field %s.%s holds a %s: a clone aliases the original" % (a, f["name"], p))
    R.ok("CL3", "(lib)", "type closure of Sodg declared in this crate (%s; %d fields) holds no Rc/Arc/reference/cell/lock/atomic/raw pointer"
         % (", ".join(sorted(seen)), n))
    R.floor("CL3", "fields in the type closure of Sodg", n, 8)

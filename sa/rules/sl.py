"""C13: slice — SL1..SL6;  C19: determinism / size independence — ND1..ND3."""
from core import *
from model import *
import gc_rules as G

HASH = ("HashSet", "HashMap")


def expr_type(body, e):
    e = strip_load(e)
    if e[0] == "param":
        return body.locals[e[1]]["ty"]
    if e[0] == "call" and len(e) > 3 and isinstance(e[3], int) and e[3] < len(body.blocks):
        t = body.blocks[e[3]]["term"]
        if t["k"] == "call" and not t["dest"]["proj"] and t["callee"].get("path") == e[1]:
            return body.locals[t["dest"]["local"]]["ty"]
    if e[0] == "upvar":
        return ""
    return ""


def is_hash_container(body, e):
    t = expr_type(body, e)
    return any(h in t for h in HASH) and not t.startswith("std::option") and "Iter" not in t and "Drain" not in t and "Keys" not in t


def is_set_container(body, e):
    """a set / map used for membership (hash or ordered)"""
    t = expr_type(body, e)
    return any(h in t for h in HASH + ("BTreeSet", "BTreeMap")) and not t.startswith("std::option") and "Iter" not in t and "Drain" not in t and "Keys" not in t


def set_id(e):
    """identity of a collection value: its creation site (two HashSet::new() calls are two sets)"""
    return strip_load(e)


def shallow(e):
    """sub-expressions of e without descending into the arguments of calls"""
    if isinstance(e, tuple) and e:
        if isinstance(e[0], str):
            yield e
            if e[0] == "call":
                return
            if e[0] == "agg" and len(e) > 3 and e[1] in ("Range", "RangeInclusive"):
                # `start..end` that is iterated / searched: the end bounds the walk, it is not part of a value found in it
                fs = dict(e[3])
                if "start" in fs:
                    yield from shallow(fs["start"])
                return
        for x in e:
            if isinstance(x, tuple):
                yield from shallow(x)


def uses_directly(e, pred):
    return any(pred(x) for x in shallow(e))


def is_pop_none_fact(f):
    """the traversal's work list ran empty (`while let Some(x) = queue.pop_front()` left)"""
    if f[0] == "in" and f[2] == frozenset(["None"]) and strip_load(f[1])[0] == "discr":
        pc = strip_load(strip_load(f[1])[1])
        return pc[0] == "call" and pc[1].split("::")[-1] in ("pop", "pop_front", "pop_back", "pop_first", "pop_last") and len(pc[2]) == 1
    return False


# ---------------------------------------------------------------- SL1 / SL2
def sl12(F, R):
    b = F.fn("Sodg", "slice_some")
    if b is None:
        R.missing("SL1", "Sodg::slice_some")
        return
    raw = Collector(F, stop_names=G.api_names(F)).collect(b)
    R.analysed(b, len(raw))
    calls = [e for e in raw if e.kind == "call" and e.body is b]
    hs = lambda e, name: e.name == name and e.args and is_hash_container(b, e.args[0])
    drains = [e for e in calls if e.name in ("drain", "pop", "take") and e.args and is_hash_container(b, e.args[0])]
    if not drains:
        # alternative work list: Vec used as a stack
        drains = [e for e in calls if e.name in ("pop", "pop_front", "drain") and e.args and "Vec" in expr_type(b, e.args[0])]
    if not drains:
        R.missing("SL1", "work list (a set/queue drained by the closure loop) in slice_some", b.where())
        return
    # completeness of the scan: none of the loops of slice_some (work list, edges of a vertex, rebuild) is left early by a
    # break / early return — a reachable vertex or an edge of a kept vertex would be lost
    nloops = 0
    for e in calls:
        if e.callee.get("decl") == "std::iter::Iterator::next":
            nloops += 1
            try:
                br = b.early_exits(e.site[0])
            except Exception:
                br = []
            if br:
                R.bad("SL1", "SL1/Sodg::slice_some/scan-stops-early", e.where(),
                      "a loop of slice_some() can be left before its iterator is exhausted (break / early return): part of the work list, "
                      "of a vertex's edges or of the vertex store is not looked at, so reachable vertices or accepted edges are lost",
                      {"iterator": show(e.args[0], b)[:160]})
    W = set_id(drains[0].args[0])
    inserts = [e for e in calls if e.name in ("insert", "push", "push_back") and e.args and set_id(e.args[0]) == W]
    in_loop = [e for e in inserts if any(is_iter_next_fact(f) for f in e.facts)]
    seeds = [e for e in inserts if e not in in_loop]
    # the work list may also be created already holding the start vertex: HashSet::from([v]), vec![v], VecDeque::from([v])
    def created_with_start(w):
        w = strip_load(w)
        if w[0] == "call" and w[1].split("::")[-1] in ("from", "from_iter") and w[2]:
            arr = strip_load(w[2][0])
            for _ in range(3):
                if arr[0] == "cast":
                    arr = strip_load(arr[2])
                elif arr[0] == "iter":
                    arr = strip_load(arr[1])
            return arr[0] == "array" and len(arr[1]) == 1 and strip_load(arr[1][0]) == ("param", 2)
        return False
    if created_with_start(W):
        pass
    elif not seeds or not any(strip_load(e.args[1]) == ("param", 2) for e in seeds):
        R.bad("SL1", "SL1/Sodg::slice_some/not-seeded-with-start", b.where(), "the closure is not seeded with the start vertex")
    R.floor("SL1", "enqueue sites inside the closure loop", len(in_loop), 1, b.where())
    for e in in_loop:
        x = e.args[1]
        detail = {"enqueued": show(x, b), "guards": [show(f, b) for f in e.facts if "Level" not in repr(f)]}
        g = None
        D = None
        tested_by_insert = False
        for f in e.facts:
            if f[0] == "bool" and f[2] is False:
                ce = strip_load(f[1])
                if ce[0] == "call" and ce[1].split("::")[-1] == "contains" and is_set_container(b, ce[2][0]) and set_id(ce[2][0]) != W and \
                        strip_sites(strip_load(ce[2][1])) == strip_sites(strip_load(x)):
                    g = f
                    D = set_id(ce[2][0])
            if f[0] == "bool" and f[2] is True:
                # `if visited.insert(x)` : test and mark in one step
                ce = strip_load(f[1])
                if ce[0] == "call" and ce[1].split("::")[-1] == "insert" and is_set_container(b, ce[2][0]) and set_id(ce[2][0]) != W and \
                        strip_sites(strip_load(ce[2][1])) == strip_sites(strip_load(x)):
                    g = f
                    D = set_id(ce[2][0])
                    tested_by_insert = True
        if g is None:
            R.bad("SL1", "SL1/Sodg::slice_some/enqueue-not-guarded-by-visited", e.where(),
                  "a vertex is put on the work list without testing that it has not been visited: slice() does not terminate on a "
                  "cyclic graph", detail)
            continue
        marks = [m for m in calls if m.name == "insert" and m.args and set_id(m.args[0]) == D]
        on_enqueue = any(strip_sites(strip_load(m.args[1])) == strip_sites(strip_load(x)) and ev_cooccur(m, e) for m in marks)
        on_dequeue = any(strip_load(m.args[1])[0] == "item" and mentions(m.args[1], lambda y: y[0] == "iter" and y[2] in ("drain",) or
                                                                         (y[0] == "call" and y[1].split("::")[-1] in ("pop", "pop_front")))
                         and not [f for f in m.facts if not is_iter_next_fact(f) and not is_isempty_fact(f) and "Level" not in repr(f)] for m in marks)
        on_enqueue = on_enqueue or tested_by_insert
        if not (on_enqueue or on_dequeue):
            R.bad("SL1", "SL1/Sodg::slice_some/visited-never-marked", e.where(),
                  "vertices are never recorded as visited (neither when enqueued nor when dequeued): the closure loop revisits a cycle forever", detail)
            continue
        R.ok("SL1", e.where(), "enqueue guarded by !visited.contains(x); x marked %s" % ("on enqueue" if on_enqueue else "on dequeue"), detail)
        # ---- SL2: predicate with exactly the scanned edge's components
        pf = None
        for f in e.facts:
            if f[0] == "bool" and f[2] is True:
                ce = strip_load(f[1])
                if ce[0] == "call" and ce[1].split("::")[-1] in ("call", "call_mut", "call_once") and strip_load(ce[2][0]) == ("param", 3):
                    pf = ce
        if pf is None:
            R.bad("SL2", "SL2/Sodg::slice_some/enqueue-not-guarded-by-predicate", e.where(),
                  "a vertex is enqueued without the caller's predicate accepting the edge that leads to it", detail)
            continue
        tup = strip_load(pf[2][1])
        comps = [strip_load(c) for c in tup[1]] if tup[0] == "tuple" else []
        xs = strip_load(x)
        edge_item = strip_load(xs[1]) if xs[0] == "field" and xs[2] == "(tuple)::1" else None
        okc = False
        if len(comps) == 3 and edge_item is not None and edge_item[0] == "item":
            src = iter_source(edge_item[1])
            frm = vertex_of(strip_load(src)[1]) if src is not None and strip_load(src)[0] == "field" and strip_load(src)[2] == "Vertex::edges" else None
            okc = frm is not None and strip_sites(comps[0]) == strip_sites(strip_load(frm[1])) and \
                strip_sites(comps[1]) == strip_sites(xs) and \
                comps[2][0] == "field" and comps[2][2] == "(tuple)::0" and strip_sites(strip_load(comps[2][1])) == strip_sites(edge_item)
            if frm is not None and strip_load(frm[0]) != ("param", 1):
                okc = False
            ads = iter_adaptors(edge_item[1])
            if ads:
                R.bad("SL2", "SL2/Sodg::slice_some/edge-scan-restricted", e.where(), "not every edge of a visited vertex is scanned (%s)" % [a for a, _ in ads], detail)
        if not okc:
            R.bad("SL2", "SL2/Sodg::slice_some/predicate-arguments", e.where(),
                  "the predicate is not asked about exactly (scanned vertex, edge target, edge label) of the edge being followed",
                  {"call": show(pf, b)})
        else:
            R.ok("SL2", e.where(), "enqueue only under p(from, to, label) of exactly the scanned edge", {"call": show(pf, b)})
    # a vertex other than the one being processed is recorded as visited only once the predicate accepted the edge to it:
    # otherwise a vertex first met through a rejected edge is never reconsidered
    for m in calls:
        if m.name != "insert" or not m.args or not is_set_container(b, m.args[0]) or set_id(m.args[0]) == W:
            continue
        xs = strip_load(m.args[1])
        if not (xs[0] == "field" and xs[2] == "(tuple)::1" and strip_load(xs[1])[0] == "item" and
                iter_source(strip_load(xs[1])[1]) is not None and strip_load(iter_source(strip_load(xs[1])[1]))[0] == "field" and
                strip_load(iter_source(strip_load(xs[1])[1]))[2] == "Vertex::edges"):
            continue
        accepted = any(f[0] == "bool" and f[2] is True and strip_load(f[1])[0] == "call" and
                       strip_load(f[1])[1].split("::")[-1] in ("call", "call_mut", "call_once") and strip_load(strip_load(f[1])[2][0]) == ("param", 3)
                       for f in m.facts)
        if not accepted:
            R.bad("SL2", "SL2/Sodg::slice_some/visited-marked-before-predicate", m.where(),
                  "an edge's target is recorded as visited before the predicate has accepted that edge: a vertex first reached through a "
                  "rejected edge is never considered again, although another accepted edge leads to it",
                  {"guards": [show(f, b) for f in m.facts if "Level" not in repr(f)]})
    # the loop runs until the work list is empty
    empt = [e for e in calls if e.name in ("is_empty", "len") and e.args and set_id(e.args[0]) == W]
    if not empt and not any(strip_load(d.args[0]) for d in drains):
        R.bad("SL1", "SL1/Sodg::slice_some/loop-exit", b.where(), "cannot establish SL1: loop exit is not tied to the work list being empty")


def is_iter_next_fact(f):
    if f[0] == "in":
        c = strip_load(f[1])
        return c[0] == "discr" and strip_load(c[1])[0] == "next"
    return False


def is_isempty_fact(f):
    return f[0] == "bool" and strip_load(f[1])[0] == "call" and strip_load(f[1])[1].split("::")[-1] == "is_empty"


# ---------------------------------------------------------------- SL3..SL6
def sl3456(F, R):
    b = F.fn("Sodg", "slice_some")
    sl = F.fn("Sodg", "slice")
    if b is None or sl is None:
        R.missing("SL3", "Sodg::slice / Sodg::slice_some")
        return
    raw = Collector(F, stop_names=G.api_names(F)).collect(b)
    calls = [e for e in raw if e.kind == "call"]
    news = [e for e in calls if e.name == "empty" and e.callee.get("local")]
    if len(news) != 1:
        R.bad("SL5", "SL5/Sodg::slice_some/result-graph", b.where(), "cannot establish SL5: %d graphs constructed" % len(news))
        return
    ng = ("call", news[0].path, tuple(news[0].args), news[0].site[0])
    cap = strip_load(news[0].args[0])
    okcap = cap[0] == "call" and cap[1].split("::")[-1] == "capacity" and strip_load(cap[2][0])[0] == "field" and \
        strip_load(cap[2][0])[2] == "Sodg::vertices" and strip_load(strip_load(cap[2][0])[1]) == ("param", 1)
    if okcap:
        R.ok("SL5", news[0].where(), "the slice has the source's vertex capacity (ids keep their meaning)")
    else:
        R.bad("SL5", "SL5/Sodg::slice_some/capacity", news[0].where(), "the slice is not created with the source's capacity: an original id may not fit",
              {"capacity": show(cap, b)})
    # returned graph is that one
    okret = False
    for d in b.defs().get(0, []):
        site = (d[0], d[1])
        e = b.expr_rvalue(d[3], site) if d[2] == "assign" else b.expr_call(d[3], site)
        if e[0] == "agg" and e[2] == "Ok" and strip_sites(strip_load(dict(e[3])["0"])) == strip_sites(ng):
            okret = True
    if not okret:
        R.bad("SL3", "SL3/Sodg::slice_some/returns-other-graph", b.where(), "slice_some does not return the graph it rebuilt")
    muts = [e for e in calls if e.callee.get("local") and e.args and strip_sites(strip_load(e.args[0])) == strip_sites(ng) and
            e.name not in ("len", "keys", "is_empty")]
    adds = [e for e in muts if e.name == "add"]
    binds = [e for e in muts if e.name == "bind"]
    for e in muts:
        if e.name not in ("add", "bind"):
            R.bad("SL3", "SL3/Sodg::slice_some/rebuild-uses-%s" % e.name, e.where(), "the slice is built with something other than add/bind (%s): data or GC state appear from nowhere" % e.name)
    R.floor("SL3", "bind calls in the rebuild", len(binds), 1, b.where())
    # visited set = the set tested in the rebuild
    for e in binds:
        v1, v2, k = [strip_load(a) for a in e.args[1:4]]
        detail = {"bind": "(%s, %s, %s)" % (show(v1, b), show(v2, b), show(k, b)), "guards": [show(f, b) for f in e.facts if "Level" not in repr(f)]}
        inner = strip_load(v2[1]) if v2[0] == "field" and v2[2] == "(tuple)::1" else None
        okk = inner is not None and inner[0] == "item" and k[0] == "field" and k[2] == "(tuple)::0" and strip_sites(strip_load(k[1])) == strip_sites(inner)
        src = iter_source(inner[1]) if okk else None
        outer = None
        if src is not None and strip_load(src)[0] == "field" and strip_load(src)[2] == "Vertex::edges":
            vx = vertex_of(strip_load(src)[1])
            if vx is not None and strip_load(vx[0]) == ("param", 1):
                outer = strip_load(vx[1])
        ok1 = outer is not None and strip_sites(v1) == strip_sites(outer)
        if not (okk and ok1):
            R.bad("SL3", "SL3/Sodg::slice_some/bind-arguments", e.where(),
                  "an edge of the slice is not (source vertex, its edge's target, its edge's label) of an edge of the source graph: "
                  "the slice contains an edge the source lacks, or edges are mislabelled/reversed", detail)
            continue
        member = {"v1": False, "v2": False}
        bad_ad = []
        for an, ex in iter_adaptors(inner[1]):
            okf = False
            if an == "filter" and ex:
                cbf = F.bodies.get(strip_load(ex[0])[1]) if strip_load(ex[0])[0] == "closure" else None
                if cbf is not None:
                    summ = pred_summary(cbf)
                    if len(summ) == 1:
                        for f in summ[0]:
                            if f[0] == "bool" and f[2] is True and strip_load(f[1])[0] == "call" and strip_load(f[1])[1].split("::")[-1] == "contains" and \
                                    mentions(f[1], lambda y: y[0] == "field" and y[2] == "(tuple)::1" and mentions(y, lambda z: z == ("param", 2))):
                                okf = True   # keeps exactly the edges whose target is a kept vertex
                                member["v2"] = True
            if not okf:
                bad_ad.append(an)
        if bad_ad:
            R.bad("SL3", "SL3/Sodg::slice_some/edge-copy-restricted", e.where(), "not every edge of a kept vertex is considered for copying (%s)" % bad_ad, detail)
            continue
        # guards: nothing but membership in the visited set (and loop protocol)
        extra = []
        for f in e.facts:
            if is_iter_next_fact(f) or is_isempty_fact(f) or "Level" in repr(f):
                continue
            # the traversal's work list ran empty (`while let Some(x) = queue.pop_front()` left): loop protocol as well
            if f[0] == "in" and f[2] == frozenset(["None"]) and strip_load(f[1])[0] == "discr":
                pc = strip_load(strip_load(f[1])[1])
                if pc[0] == "call" and pc[1].split("::")[-1] in ("pop", "pop_front", "pop_back", "pop_first", "pop_last") and len(pc[2]) == 1:
                    continue
            if f[0] == "bool" and f[2] is True:
                ce = strip_load(f[1])
                if ce[0] == "call" and ce[1].split("::")[-1] == "contains" and is_set_container(b, ce[2][0]):
                    a = strip_sites(strip_load(ce[2][1]))
                    if a == strip_sites(v2):
                        member["v2"] = True
                        continue
                    if a == strip_sites(v1):
                        member["v1"] = True
                        continue
            if asserted_precondition(e.body, f, e.site):
                continue
            extra.append(show(f, b))
        # v1's membership may come from the outer iteration walking the visited set itself
        if not member["v1"] and outer is not None and outer[0] == "item":
            osrc = iter_source(outer[1])
            if osrc is not None and is_hash_container(b, osrc):
                member["v1"] = True
        # ... or from a filter adaptor on the outer iteration
        if not member["v1"] and outer is not None:
            it = strip_load(outer[1]) if outer[0] == "field" else None
            if it is not None and it[0] == "item":
                for an, ex in iter_adaptors(it[1]):
                    if an == "filter":
                        cb = F.bodies.get(strip_load(ex[0])[1]) if strip_load(ex[0])[0] == "closure" else None
                        if cb is not None:
                            for conj in pred_summary(cb):
                                for f in conj:
                                    if f[0] == "bool" and f[2] is True and strip_load(f[1])[0] == "call" and strip_load(f[1])[1].split("::")[-1] == "contains":
                                        member["v1"] = True
                if iter_source(it[1]) is not None and [a for a, _ in iter_adaptors(it[1]) if a not in ("filter",)]:
                    extra.append("outer iteration adaptors %s" % [a for a, _ in iter_adaptors(it[1])])
        if extra:
            R.bad("SL3", "SL3/Sodg::slice_some/edge-copy-conditional", e.where(),
                  "an edge between kept vertices is copied only under an extra condition: the slice lacks edges of the reachable sub-graph",
                  {"conditions": extra})
        elif not (member["v1"] and member["v2"]):
            R.bad("SL3", "SL3/Sodg::slice_some/edge-copy-not-restricted-to-kept", e.where(),
                  "an edge is copied although one of its endpoints may not be a kept vertex (the slice would contain vertices that are "
                  "not reachable)", detail)
        else:
            # both endpoints are added before the bind
            def added(v):
                for a in adds:
                    if strip_sites(strip_load(a.args[1])) != strip_sites(v) or not b.reaches(a.site, e.site):
                        continue
                    ex = [f for f in a.conditions() if not (is_iter_next_fact(f) or is_isempty_fact(f) or is_pop_none_fact(f) or
                                                      (f[0] == "bool" and f[2] is True and strip_load(f[1])[0] == "call" and
                                                       strip_load(f[1])[1].split("::")[-1] == "contains"))]
                    if not ex:
                        return True
                return False
            a1, a2 = added(v1), added(v2)
            if a1 and a2:
                R.ok("SL3", e.where(), "bind(v1, v2, k) = the iterated edge, iff both endpoints are kept; both endpoints added first", detail)
            else:
                R.bad("SL3", "SL3/Sodg::slice_some/endpoint-not-added", e.where(), "an edge is bound before both of its endpoints were added to the slice", detail)
    # every kept vertex is added (also one without kept edges): an add of the outer key guarded only by membership
    outer_adds = [a for a in adds if strip_load(a.args[1])[0] == "field" and strip_load(a.args[1])[2] == "(tuple)::0" and
                  iter_source(strip_load(strip_load(a.args[1])[1])[1]) is not None and
                  strip_load(iter_source(strip_load(strip_load(a.args[1])[1])[1]))[2] == "Sodg::vertices"]
    if not outer_adds:
        outer_adds = [a for a in adds if strip_load(a.args[1])[0] == "item" and iter_source(strip_load(a.args[1])[1]) is not None and
                      is_hash_container(b, iter_source(strip_load(a.args[1])[1]))]
    if not outer_adds:
        R.bad("SL3", "SL3/Sodg::slice_some/kept-vertex-not-added", b.where(), "a kept vertex without kept edges is not added to the slice (e.g. slicing at a leaf gives an empty graph)")
    # ---- SL4 nothing written through &self
    n = 0
    for e in raw:
        if e.kind == "write" and G.context(F) and mentions(strip_load(e.loc), lambda x: x == ("param", 1)) and base_root_is(e.loc, ("param", 1)):
            R.bad("SL4", "SL4/Sodg::slice_some/write-through-self", e.where(), "slice_some() writes into the source graph")
        if e.kind == "call" and e.args and base_root_is(e.args[0], ("param", 1)):
            n += 1
            if e.krate == "emap" and e.name not in EMAP_READONLY:
                R.bad("SL4", "SL4/Sodg::slice_some/source-%s" % e.name, e.where(), "slice_some() reaches mutable access to the source's storage (emap %s)" % e.name)
            if e.callee.get("local"):
                cb = F.bodies.get(e.path)
                if cb is not None and cb.locals[1]["ty"].startswith("&mut"):
                    R.bad("SL4", "SL4/Sodg::slice_some/mutating-call-on-source/%s" % e.name, e.where(), "slice_some() calls a mutating method on the source graph")
    if b.locals[1]["ty"] != "&Sodg<N>":
        R.bad("SL4", "SL4/Sodg::slice_some/receiver", b.where(), "slice_some takes its graph by %s" % b.locals[1]["ty"])
    R.ok("SL4", b.where(), "the source graph is only read (%d accesses)" % n)
    # ---- SL6: slice() = slice_some with the constantly-true predicate
    R.analysed(sl, sum(1 for _ in sl.sites()))
    ok6 = False
    for site, t in sl.calls():
        if t["callee"].get("path") == b.path:
            args = [strip_load(deref_addr(sl, a)) for a in sl.call_args(t, site)]
            cl = args[2] if len(args) > 2 else None
            if cl is not None and cl[0] in ("closure", "fn"):
                cb = F.bodies.get(cl[1])
                if cb is not None:
                    rets = [strip_load(cb.expr_local(0, (r, cb.term_idx(r)))) for r in cb.returns]
                    if rets and all(x == ("const", 1) for x in rets) and args[0] == ("param", 1) and args[1] == ("param", 2):
                        ok6 = True
    if ok6:
        R.ok("SL6", sl.where(), "slice(v) = slice_some(v, |_,_,_| true)")
    else:
        R.bad("SL6", "SL6/Sodg::slice/predicate-not-constantly-true", sl.where(),
              "slice(v) does not follow every edge: its predicate is not constantly true (or it slices from another vertex)")


def sl7(F, R):
    """a slice of a present start vertex is always produced: slice() / slice_some() build no `Err` of their own, except to refuse an id at
    or beyond the capacity (outside every quantifier)"""
    for name in ("slice", "slice_some"):
        b = F.fn("Sodg", name)
        if b is None:
            R.missing("SL7", "Sodg::" + name)
            continue
        R.analysed(b)
        n = 0
        for site, kind, st in b.sites():
            if not (kind == "stmt" and st["k"] == "assign" and st["rv"]["k"] == "aggregate" and st["rv"].get("variant") == "Err"):
                continue
            n += 1
            facts = b.facts_at(site)
            beyond = False
            for f in facts:
                if f[0] == "cmp" and f[1] in ("<=", "<"):
                    l, r = strip_load(f[2]), strip_load(f[3])
                    if l[0] == "call" and l[1].split("::")[-1] == "capacity" and r[0] == "param" and f[1] == "<=":
                        beyond = True
            if beyond:
                R.ok("SL7", b.where(site), "Err only for a start id at or beyond the capacity")
            else:
                R.bad("SL7", "SL7/Sodg::%s/own-error" % name, b.where(site),
                      "%s() can refuse to produce a slice (an Err built here, not propagated): a legal start vertex gets no slice" % name,
                      {"guards": [show(f, b)[:120] for f in facts if "Level" not in repr(f)][:6]})
        R.ok("SL7", b.where(), "%s(): %d own Err results examined" % (name, n))


def _leaf_idiom(F, sl, site, pay):
    """accepted second result of slice(): under the tested fact `edges of V(v) is empty` the graph `empty(capacity of self.vertices)`
    on which slice() performs nothing but add(v).  (slice() takes &self, so every mutator it calls is applied to the new graph.)"""
    v_edges = ("field", ("elem", ("field", ("param", 1), "Sodg::vertices"), ("param", 2)), "Vertex::edges")
    guard = False
    for f in sl.facts_at(site):
        if f[0] == "bool" and f[2] is True and f[1][0] == "call" and f[1][1].split("::")[-1] == "is_empty" and \
                len(f[1][2]) == 1 and strip_sites(strip_load(f[1][2][0])) == v_edges:
            guard = True
    if not guard or len(pay) != 1:
        return False
    g = strip_load(pay[0])
    if not (g[0] == "call" and g[1].split("::")[-1] == "empty" and len(g[2]) == 1):
        return False
    cap = strip_load(g[2][0])
    if not (cap[0] == "call" and cap[1].split("::")[-1] == "capacity" and strip_sites(strip_load(cap[2][0])) == ("field", ("param", 1), "Sodg::vertices")):
        return False
    for csite, t in sl.calls():
        c = t["callee"]
        if not c.get("local"):
            continue
        cb = F.bodies.get(c.get("path"))
        if cb is None or not cb.locals[1]["ty"].startswith("&mut"):
            continue
        args = [strip_load(deref_addr(sl, a)) for a in sl.call_args(t, csite)]
        if not (c.get("name") == "add" and len(args) == 2 and args[1] == ("param", 2)):
            return False
    return True


def sl8(F, R):
    """slice(v) returns exactly what slice_some(v, always-true) returns: every Ok(..) built in slice() carries the graph produced by
    the slice_some call (a second way of producing the result — a fast path for a vertex "known" to be standalone — is a second
    definition of reachability, and is wrong whenever its premise is: a vertex outside every group can still have edges)"""
    sl = F.fn("Sodg", "slice")
    ss = F.fn("Sodg", "slice_some")
    if sl is None or ss is None:
        R.missing("SL8", "Sodg::slice / Sodg::slice_some")
        return
    R.analysed(sl)
    n = 0
    for site, kind, st in sl.sites():
        if not (kind == "stmt" and st["k"] == "assign" and st["rv"]["k"] == "aggregate" and st["rv"].get("variant") == "Ok"):
            continue
        e = sl.expr_rvalue(st["rv"], site)
        pay = [fe for _, fe in e[3]]
        n += 1
        from_ss = bool(pay) and all(mentions(x, lambda z: z[0] == "call" and z[1] == ss.path) for x in pay)
        other = any(mentions(x, lambda z: z[0] == "call" and z[1] != ss.path and z[1].split("::")[-1] in ("empty", "clone", "default"))
                    for x in pay)
        if from_ss and not other:
            R.ok("SL8", sl.where(site), "the Ok(..) of slice() carries the graph produced by slice_some()")
        elif _leaf_idiom(F, sl, site, pay):
            R.ok("SL8", sl.where(site), "fast path for a start vertex tested to have no edges: empty(capacity of the source) + add(v) is "
                 "what slice_some() builds for it (the closure visits v alone, the rebuild adds v and finds no edge)")
        else:
            R.bad("SL8", "SL8/Sodg::slice/result-not-from-slice_some", sl.where(site),
                  "slice() returns a graph that was not produced by slice_some(v, always-true): a second definition of the reachable "
                  "sub-graph (fast path), wrong whenever its premise about the start vertex is",
                  {"payload": [show(x, sl)[:200] for x in pay], "guards": [show(f, sl)[:120] for f in sl.facts_at(site) if "Level" not in repr(f)][:6]})
    # ... or slice() hands on the Result of slice_some() as it is
    def _alts(x, acc, depth=0):
        x = strip_load(x)
        if x[0] == "phi" and depth < 6:
            for y in x[1]:
                _alts(y, acc, depth + 1)
        else:
            acc.append(x)
        return acc
    for r in sl.returns:
        for x in _alts(sl.expr_local(0, (r, sl.term_idx(r))), []):
            if x[0] != "agg" and mentions(x, lambda z: z[0] == "call" and z[1] == ss.path):
                n += 1
                R.ok("SL8", sl.where((r, sl.term_idx(r))), "slice() returns the Result of slice_some() as it is")
    R.floor("SL8", "results of slice() traced to their origin", n, 1)


def base_root_is(e, root):
    ch = base_chain(e)
    return bool(ch) and strip_load(ch[-1]) == root


# ---------------------------------------------------------------- ND1: hash-order taint
NEUTRAL = {"collect", "len", "count", "contains", "contains_key", "insert", "from_iter", "sub", "is_empty", "copied", "cloned",
           "map", "filter", "clone", "into_iter", "iter", "next", "deref", "deref_mut", "get", "get_mut", "unwrap", "expect",
           "sort", "sort_unstable", "sort_by_key", "sort_unstable_by_key", "sorted", "sorted_by_key", "drain", "keys", "values",
           "call", "call_mut", "remove", "difference", "union", "intersection", "is_subset", "extend_hash", "as_slice", "index",
           "capacity", "size_hint", "any", "all", "max", "min", "sum", "first", "as_ref", "borrow", "into", "to_owned", "entry",
           "or_insert_with", "or_insert", "eq", "ne", "branch", "from_residual", "with_context", "context", "drop", "kid", "kids",
           "is_none", "is_some", "ok_or", "ok_or_else", "to_vec", "as_str", "trim", "push_hashed"}
SORTS = {"sort", "sort_unstable", "sort_by_key", "sort_unstable_by_key", "sorted", "sorted_by_key", "sorted_unstable"}


def hash_sources(body, e):
    """sub-expressions of e that are iterations over a hash container"""
    out = []
    for x in walk(e):
        if x[0] == "iter" and is_hash_container(body, x[1]):
            out.append(x)
    return out


def nd1(F, R):
    n_src = 0
    seen_src = set()
    for root in F.roots():
        raw = Collector(F, depth=0).collect(root)
        calls = [e for e in raw if e.kind == "call"]
        R.analysed(root, len(raw))
        # vectors filled inside a hash-ordered loop carry that order
        tainted_vecs = {}
        for e in calls:
            if e.name in ("push", "push_back", "extend", "extend_from_slice", "push_str", "insert") and e.args and "Vec" in expr_type(e.body, e.args[0]):
                drv = []
                for f in e.facts:
                    if f[0] == "in" and f[2] == frozenset(["Some"]):
                        cc = strip_load(f[1])
                        if cc[0] == "discr" and strip_load(cc[1])[0] == "next":
                            drv += hash_sources(e.body, strip_load(cc[1])[1])
                for a in e.args[1:]:
                    drv += hash_sources(e.body, a)
                if drv:
                    tainted_vecs[strip_sites(strip_load(e.args[0]))] = drv[0]
        for e in calls:
            srcs = []
            for a in e.args:
                srcs += hash_sources(e.body, a)
                for tv, src0 in tainted_vecs.items():
                    if mentions(a, lambda x: strip_sites(x) == tv):
                        srcs.append(src0)
            # filling such a vector is propagation, not yet a use
            if e.name in ("push", "push_back") and e.args and strip_sites(strip_load(e.args[0])) in tainted_vecs:
                continue
            # loop bodies driven by a hash-ordered iterator
            for f in e.facts:
                if f[0] == "in" and f[2] == frozenset(["Some"]):
                    c = strip_load(f[1])
                    if c[0] == "discr" and strip_load(c[1])[0] == "next":
                        srcs += hash_sources(e.body, strip_load(c[1])[1])
            if not srcs:
                continue
            for s in srcs:
                k = (root.path, repr(strip_sites(s)))
                if k not in seen_src:
                    seen_src.add(k)
                    n_src += 1
            name = e.name
            if e.exp:
                continue
            sens = None
            if e.callee.get("local"):
                cb = F.bodies.get(e.path)
                if cb is not None and cb.arg_count >= 1 and cb.locals[1]["ty"].startswith("&mut"):
                    sens = "graph mutation `%s` in hash order" % name
                elif name not in NEUTRAL and name not in ("len", "keys", "is_empty", "kid", "kids"):
                    sens = None
            elif name in NEUTRAL or e.callee.get("decl", "").startswith("std::cmp::"):
                sens = None
            elif name in ("push", "push_str", "extend", "extend_from_slice", "join", "write_str", "write_fmt", "concat", "format",
                          "new_display", "new_debug", "fold", "for_each", "last", "nth", "find", "position", "push_back", "append"):
                sens = "order-sensitive use `%s` of a hash-ordered sequence" % name
            elif name in ("next_id", "add", "bind", "put", "data", "merge"):
                sens = "graph mutation `%s` in hash order" % name
            if sens is None:
                continue
            # sanitised: a sort on (a value containing) the same hash-derived sequence dominates the use
            sanit = False
            for s2 in calls:
                if s2.name in SORTS and s2.body is e.body and e.body.dominates(s2.site, e.site):
                    for a in s2.args:
                        if any(strip_sites(x) in {strip_sites(y) for y in srcs} for x in hash_sources(s2.body, a)):
                            sanit = True
                        if any(mentions(a, lambda x: strip_sites(x) == tv) for tv in tainted_vecs):
                            sanit = True
            # the use is of a sorted adaptor chain
            for a in e.args:
                if mentions(a, lambda x: x[0] == "adapt" and x[1] in SORTS and hash_sources(e.body, x)):
                    sanit = True
            if sanit:
                R.ok("ND1", e.where(), "hash-ordered sequence is sorted before its order-sensitive use `%s`" % name)
            else:
                R.bad("ND1", "ND1/%s/%s" % (e.fn_key(), name), e.where(),
                      "%s: the result depends on the iteration order of a std hash container, which differs from run to run" % sens,
                      {"source": show(srcs[0], e.body)})
    R.ok("ND1", "(crate)", "%d hash-order iteration sources reach only order-insensitive uses or are sorted first" % n_src)


# ---------------------------------------------------------------- ND2: other sources of nondeterminism
def nd2(F, R):
    n = 0
    for b in F.all_bodies():
        raw = None
        for site, t in b.calls():
            c = t["callee"]
            p = c.get("path", "")
            kind = None
            if p.startswith("std::time::") and c.get("name") in ("now",):
                kind = "time"
            elif c.get("krate") in ("rand", "getrandom", "fastrand") or "RandomState" in p and c.get("name") == "new":
                kind = "random"
            elif p.startswith("std::env::") or p.startswith("std::thread::") or p.startswith("std::process::id"):
                kind = "environment"
            if kind is None:
                continue
            n += 1
            # the value may only feed logging / elapsed()
            val = ("call", p, tuple(), site[0])
            users = []
            for s2, t2 in b.calls():
                if s2 == site:
                    continue
                args = [deref_addr(b, a) for a in b.call_args(t2, s2)]
                if any(mentions(a, lambda x: x[0] == "call" and x[1] == p and x[3] == site[0]) for a in args):
                    users.append((s2, t2))
            badu = [(s2, t2) for s2, t2 in users if not (t2.get("exp") or t2["callee"].get("name") in ("elapsed", "duration_since", "new_debug", "new_display")
                                                          or t2["callee"].get("krate") == "log")]
            if badu:
                s2, t2 = badu[0]
                R.bad("ND2", "ND2/%s/%s-reaches-%s" % (fn_key(b), kind, t2["callee"].get("name")), b.where(s2),
                      "a %s value flows into `%s`: results are not a function of the call sequence" % (kind, t2["callee"].get("path")))
            else:
                R.ok("ND2", b.where(site), "%s source `%s` feeds logging only" % (kind, short_path(p)))
        for site, kind2, s in b.sites():
            if kind2 == "stmt" and s["k"] == "assign" and s["rv"]["k"] == "cast" and ("Expose" in s["rv"]["kind"] or "PtrToInt" in s["rv"]["kind"]) and not s.get("exp"):
                R.bad("ND2", "ND2/%s/pointer-to-integer" % fn_key(b), b.where(site), "an address is turned into a number")
    R.ok("ND2", "(crate)", "%d time/random/environment sources examined; no pointer-to-integer cast" % n)


# ---------------------------------------------------------------- ND3: N and capacity are only bounds
def refuses_an_id_beyond_the_capacity(b, bi, e):
    """the switch at block bi compares an id *parameter* with the vertex capacity, and one of its two edges leads to `Err` results only
    (never to the other edge's code): ids at or above the capacity are outside every property's quantifier, so refusing them with
    an error instead of the containers' panic changes nothing within it"""
    core = strip_load(e)
    if core[0] != "binop" or core[1] not in ("Lt", "Le", "Gt", "Ge"):
        return False
    sides = [strip_load(core[2]), strip_load(core[3])]
    if not any(x[0] == "param" for x in sides) or not any(x[0] == "call" and x[1].split("::")[-1] == "capacity" for x in sides):
        return False
    succs = [s for s, _ in b.succ[bi]]
    if len(succs) != 2:
        return False

    def reach(x):
        seen, st = set(), [x]
        while st:
            y = st.pop()
            if y in seen:
                continue
            seen.add(y)
            st.extend(z for z, _ in b.succ[y])
        return seen
    for s_exit, s_other in (succs, succs[::-1]):
        r = reach(s_exit)
        if s_other in r:
            continue
        vals = []
        for d in b.defs().get(0, []):
            if d[0] in r:
                site = (d[0], d[1])
                try:
                    v = b.expr_rvalue(d[3], site) if d[2] == "assign" else b.expr_call(d[3], site)
                except Exception:
                    return False
                vals.append(strip_load(v))
        if vals and all((v[0] == "agg" and v[2] == "Err") or (v[0] == "call" and v[1].split("::")[-1] == "from_residual") for v in vals):
            return True
    return False


def n_only_in_full_map_assertion(b, site, kind, s):
    """the use of N at `site` is (a) on a path that never returns (the text of a panic), or (b) the comparison `edges.len() < N` of
    an assertion whose other disjunct is `edges.contains_key(<label>)`: false ⇒ contains_key ⇒ (true: continue where `<` continues;
    false: panic).  That is micromap's own precondition for `insert`; within "at most N labels per vertex" it never fires."""
    b.presence_assertions()
    can = set()
    for x in b.reachable:
        if b.blocks[x]["term"]["k"] == "return":
            can.add(x)
    ch = True
    while ch:
        ch = False
        for x in b.reachable:
            if x not in can and any(y in can for y, _ in b.succ[x]):
                can.add(x); ch = True
    if site[0] not in can:
        return True             # (a)
    if not (kind == "stmt" and s["k"] == "assign" and s["rv"]["k"] == "binop" and s["rv"]["op"] == "Lt"):
        return False
    r = s["rv"]["r"]
    if not (r.get("k") == "const" and r.get("text", "").strip() in ("N", "const N")):
        return False
    try:
        le = strip_load(b.expr_operand(s["rv"]["l"], site))
    except Exception:
        return False
    if not (le[0] == "call" and le[1].split("::")[-1] == "len" and mentions(le[2][0], lambda x: x[0] == "field" and x[2] == "Vertex::edges")):
        return False
    edges = strip_sites(strip_load(le[2][0]))
    t = b.blocks[site[0]]["term"]
    if t["k"] != "switch":
        return False

    def skip(x):
        for _ in range(6):
            blk = b.blocks[x]
            if blk["term"]["k"] == "goto" and all(st.get("k") != "assign" or not st["lhs"]["proj"] for st in blk["stmts"]):
                x = blk["term"]["target"]
            else:
                break
        return x
    f_t = [tb for val, tb in t["targets"] if val == 0]
    if len(f_t) != 1 or t.get("otherwise") is None:
        return False
    ok_t, b2 = skip(t["otherwise"]), skip(f_t[0])
    t2 = b.blocks[b2]["term"]
    if t2["k"] != "call" or t2["callee"].get("name") != "contains_key" or t2.get("target") is None:
        return False
    a2 = [strip_load(deref_addr(b, a)) for a in b.call_args(t2, (b2, len(b.blocks[b2]["stmts"])))]
    if len(a2) != 2 or strip_sites(a2[0]) != edges or a2[1][0] != "param":
        return False
    b3 = skip(t2["target"])
    t3 = b.blocks[b3]["term"]
    if t3["k"] != "switch" or t3.get("otherwise") is None:
        return False
    f3 = [tb for val, tb in t3["targets"] if val == 0]
    return len(f3) == 1 and skip(t3["otherwise"]) == ok_t and skip(f3[0]) not in can


def nd3(F, R):
    n_cap = 0
    # the constructor's capacity argument sizes the vertex store only: the group tables have the fixed size the limits speak of
    ctor = F.fn("Sodg", "empty")
    if ctor is not None:
        for site, kind, s in ctor.sites():
            if kind == "stmt" and s["k"] == "assign" and s["rv"]["k"] == "aggregate" and s["rv"].get("adt") == "Sodg":
                fs = dict(ctor.expr_rvalue(s["rv"], site)[3])
                for fname in ("stores", "branches"):
                    v = fs.get(fname)
                    if v is not None and mentions(v, lambda x: x == ("param", 1)):
                        R.bad("ND3", "ND3/Sodg::empty/group-table-size-depends-on-capacity", ctor.where(site),
                              "the size of the `%s` table is computed from the capacity given to empty(): how many groups can be alive "
                              "(and therefore which vertices get collected) differs between graphs of different capacity" % fname,
                              {fname: show(v, ctor)[:200]})
                    elif v is not None:
                        R.ok("ND3", ctor.where(site), "the `%s` table does not depend on the constructor's capacity argument" % fname)
    for b in F.all_bodies():
        if b.self_adt not in ("Sodg", "Script") or b.path in F.test_bodies:
            continue        # Script lives in the same crate and can read the graph's tables (an id check against the capacity)
        # const generic N as a value
        for site, kind, s in b.sites():
            ops = []
            if kind == "stmt" and s["k"] == "assign":
                rv = s["rv"]
                for key in ("op", "l", "r", "x"):
                    if isinstance(rv.get(key), dict):
                        ops.append(rv[key])
                ops += rv.get("ops", [])
            elif kind == "term" and s["k"] == "call":
                ops += s["args"]
            elif kind == "term" and s["k"] == "switch":
                ops.append(s["op"])
            for o in ops:
                if o.get("k") == "const" and o.get("ty") == "usize" and o.get("text", "").strip() in ("N", "const N"):
                    if n_only_in_full_map_assertion(b, site, kind, s):
                        R.ok("ND3", b.where(site), "N occurs only in the assertion `edges.len() < N || edges.contains_key(label)` (the container's own "
                             "condition for an insert) or in its message: it cannot fire while a vertex has at most N labels")
                        continue
                    R.bad("ND3", "ND3/%s/edge-capacity-used-as-value" % fn_key(b), b.where(site),
                          "the edge capacity N is used as a value: answers differ between graphs of different N")
        for site, t in b.calls():
            c = t["callee"]
            if c.get("name") == "capacity" and c.get("krate") in ("emap", "micromap", "microstack"):
                n_cap += 1
                val_bb = site[0]
                bad = None
                for s2, t2 in b.calls():
                    if s2 == site:
                        continue
                    args = [deref_addr(b, a) for a in b.call_args(t2, s2)]
                    if any(uses_directly(a, lambda x: x[0] == "call" and x[1].split("::")[-1] == "capacity" and x[3] == val_bb) for a in args):
                        nm = t2["callee"].get("name")
                        if t2.get("exp") or t2["callee"].get("krate") == "log" or nm in ("new_display", "new_debug"):
                            continue
                        if nm == "empty" and t2["callee"].get("local"):
                            continue
                        bad = (s2, nm)
                # comparisons: only as a bound whose other edge diverges
                for bi in sorted(b.reachable):
                    tt = b.blocks[bi]["term"]
                    if tt["k"] == "switch":
                        e = b.expr_operand(tt["op"], (bi, b.term_idx(bi)))
                        if uses_directly(e, lambda x: x[0] == "call" and x[1].split("::")[-1] == "capacity" and x[3] == val_bb):
                            succs = [s for s, _ in b.succ[bi]]
                            if sum(1 for s in succs if s in b.can_return) > 1 and not refuses_an_id_beyond_the_capacity(b, bi, e):
                                bad = ((bi, b.term_idx(bi)), "branch")
                # stored into state / returned
                for s2, st in b.writes():
                    v = b.expr_rvalue(st["rv"], s2)
                    if uses_directly(v, lambda x: x[0] == "call" and x[1].split("::")[-1] == "capacity" and x[3] == val_bb):
                        bad = (s2, "write")
                if bad:
                    R.bad("ND3", "ND3/%s/capacity-reaches-%s" % (fn_key(b), bad[1]), b.where(bad[0]),
                          "the vertex capacity influences a result (%s): answers differ between graphs of different capacity" % bad[1])
                else:
                    R.ok("ND3", b.where(site), "capacity() flows only into Sodg::empty / a diverging bound check / logging")
    R.note("ND3: %d capacity() reads examined" % n_cap)

"""C17: Label::from_str / Debug / Display — LB1..LB5."""
import ast
from core import *
from model import *


def decode_template(text):
    """literal pieces of a compact fmt::Arguments template: returns (pieces, n_placeholders, clean)"""
    try:
        raw = ast.literal_eval(text if text.startswith("b") else "b" + text)
    except Exception:
        return None
    pieces = []
    nph = 0
    i = 0
    clean = True
    while i < len(raw):
        b = raw[i]
        i += 1
        if b == 0:
            break
        if b < 0x80:
            pieces.append(raw[i:i + b].decode("utf-8", "replace"))
            i += b
        elif b == 0xc0:
            nph += 1
            pieces.append(None)
        elif b == 0xc8:
            nph += 1
            pieces.append(None)
            i += 2
        else:
            clean = False
            break
    return pieces, nph, clean


def agg_sites(body, adt, variant):
    out = []
    for site, kind, s in body.sites():
        if kind == "stmt" and s["k"] == "assign" and s["rv"]["k"] == "aggregate" and s["rv"].get("adt") == adt and \
                s["rv"].get("variant") == variant:
            out.append((site, body.expr_rvalue(s["rv"], site)))
    return out


def is_byte_len(e, sparam):
    """expression is a byte length of the input text"""
    core = strip_load(e)
    if core[0] == "call":
        n = core[1]
        if n.endswith("str>::len") or n.endswith("String::len"):
            return True
        if n.split("::")[-1] == "len" and core[2] and mentions(core[2][0], lambda x: x[0] == "call" and x[1].split("::")[-1] in ("as_bytes", "bytes", "into_bytes")):
            return True
        if n.split("::")[-1] == "count" and core[2] and mentions(core[2][0], lambda x: x[0] == "iter" and x[2] == "bytes"):
            return True
    return False


def is_char_count(e):
    core = strip_load(e)
    if core[0] == "call":
        last = core[1].split("::")[-1]
        if last == "count" and core[2] and mentions(core[2][0], lambda x: x[0] == "iter" and x[2] in ("chars", "char_indices")):
            return True
        if last == "len" and core[2] and mentions(core[2][0], lambda x: x[0] == "call" and x[1].split("::")[-1] == "collect"
                                                   and mentions(x, lambda y: y[0] == "iter" and y[2] == "chars")):
            return True
    return False


def lb1(F, R):
    b = F.fn("Label", "from_str", "std::str::FromStr")
    if b is None:
        R.missing("LB1", "<Label as FromStr>::from_str")
        return
    R.analysed(b, sum(1 for _ in b.sites()))
    greek = agg_sites(b, "Label", "Greek")
    R.floor("LB1", "constructions of Label::Greek in from_str", len(greek), 1, b.where())
    for site, e in greek:
        facts = b.facts_at(site)
        byte_f = [f for f in facts if f[0] in ("in", "notin", "cmp") and any(is_byte_len(x, None) for x in ([f[1]] if f[0] != "cmp" else [f[2], f[3]]))]
        char_f = [f for f in facts if f[0] == "in" and f[2] == frozenset([1]) and is_char_count(f[1])]
        detail = {"guards": [show(f, b) for f in sorted(facts, key=repr)]}
        if byte_f:
            R.bad("LB1", "LB1/Label::from_str/single-char-decided-on-bytes", b.where(site),
                  "the single-character variant is chosen by the UTF-8 byte length of the text, not by its number of "
                  "characters: a non-ASCII single character (every actual Greek letter) parses to the text variant, so "
                  "printing a Greek(c) label and parsing it back gives a different label", detail)
        elif not char_f:
            R.bad("LB1", "LB1/Label::from_str/single-char-not-decided-on-char-count", b.where(site),
                  "cannot establish LB1: the single-character variant is not guarded by a character count of exactly 1", detail)
        else:
            R.ok("LB1", b.where(site), "Label::Greek is chosen iff the text has exactly one character (chars-derived count)", detail)
        # payload is the first char of the text
        fs = dict(e[3])
        pay = strip_load(fs.get("0", ("?",)))
        if not mentions(pay, lambda x: x[0] == "iter" and x[2] == "chars"):
            R.bad("LB1", "LB1/Label::from_str/greek-payload", b.where(site), "Label::Greek does not carry a character of the text",
                  {"payload": show(pay, b)})


def lb2(F, R):
    b = F.fn("Label", "from_str", "std::str::FromStr")
    if b is None:
        R.missing("LB2", "<Label as FromStr>::from_str")
        return
    stores = []
    for site, s in b.writes():
        loc = strip_load(b.expr_place(s["lhs"], site))
        if loc[0] == "elem" and s["lhs"]["ty"] == "char":
            stores.append((site, loc, b.expr_rvalue(s["rv"], site)))
    strs = agg_sites(b, "Label", "Str")
    R.floor("LB2", "constructions of Label::Str in from_str", len(strs), 1, b.where())
    if not stores:
        R.missing("LB2", "store of a character into the text array", b.where())
        return
    for site, loc, val in stores:
        idx = loc[2]
        facts = b.facts_at(site)
        bounded = None
        for f in facts:
            if f[0] == "in" and strip_sites(f[1]) == strip_sites(idx) and all(isinstance(v, int) and 0 <= v <= 7 for v in f[2]):
                bounded = f
        detail = {"index": show(idx, b), "guards": [show(f, b) for f in sorted(facts, key=repr)]}
        if bounded is None:
            R.bad("LB2", "LB2/Label::from_str/store-not-bounded", b.where(site),
                  "a character is stored into the 8-slot array at an index that is not tested to be below 8: an over-long "
                  "text panics with an out-of-bounds index instead of returning Err", detail)
            continue
        # the rejecting edge returns Err
        rej = False
        for d in b.defs().get(0, []):
            dsite = (d[0], d[1])
            dfacts = b.facts_at(dsite)
            if any(f[0] == "notin" and strip_sites(f[1]) == strip_sites(idx) for f in dfacts) or \
                    any(f[0] == "in" and strip_sites(f[1]) == strip_sites(idx) and not (f[2] & bounded[2]) for f in dfacts):
                e = b.expr_rvalue(d[3], dsite) if d[2] == "assign" else b.expr_call(d[3], dsite)
                if e[0] == "agg" and e[2] == "Err":
                    rej = True
        # every character is visited: no take/skip on the enumerated chain
        it = None
        core = strip_load(idx)
        if core[0] == "field" and strip_load(core[1])[0] == "item":
            it = strip_load(core[1])[1]
        ads = [a for a, _ in iter_adaptors(it)] if it is not None else ["?"]
        src_ok = it is not None and mentions(it, lambda x: x[0] == "iter" and x[2] == "chars")
        if not rej:
            R.bad("LB2", "LB2/Label::from_str/overlong-not-rejected", b.where(site),
                  "a text longer than 8 characters is not rejected with Err on the path that refuses to store the 9th character",
                  detail)
        elif [a for a in ads if a not in ("enumerate", "collect")] or not src_ok:
            R.bad("LB2", "LB2/Label::from_str/chars-not-all-visited", b.where(site),
                  "the characters stored are not all characters of the text (adaptors %s): an over-long text is truncated "
                  "instead of rejected, or characters are dropped" % ads, detail)
        else:
            # value stored is the enumerated character
            v = strip_load(val)
            if not (v[0] == "field" and v[2] == "(tuple)::1" and strip_sites(strip_load(v[1])) == strip_sites(strip_load(core[1]))):
                R.bad("LB2", "LB2/Label::from_str/stored-char-not-the-enumerated-one", b.where(site),
                      "the character stored at index i is not the i-th character of the text", {"value": show(val, b)})
            else:
                R.ok("LB2", b.where(site), "a[i] := i-th char, i ∈ 0..=7 on the storing edge, Err on the other edge, all chars visited", detail)
    # the array handed to Label::Str is the one filled
    for site, e in strs:
        fs = dict(e[3])
        arr = strip_load(fs.get("0", ("?",)))
        if not (arr[0] == "repeat"):
            R.bad("LB2", "LB2/Label::from_str/str-payload", b.where(site), "Label::Str does not carry the filled array", {"payload": show(arr, b)})


def pad_char(b):
    for site, e in agg_sites(b, "Label", "Str"):
        fs = dict(e[3])
        arr = strip_load(fs.get("0", ("?",)))
        if arr[0] == "repeat" and strip_load(arr[1])[0] == "const":
            return strip_load(arr[1])[1]
    return None


def lb3(F, R):
    b = F.fn("Label", "from_str", "std::str::FromStr")
    if b is None:
        R.missing("LB3", "<Label as FromStr>::from_str")
        return
    alphas = agg_sites(b, "Label", "Alpha")
    R.floor("LB3", "constructions of Label::Alpha in from_str", len(alphas), 1, b.where())
    for site, e in alphas:
        fs = dict(e[3])
        pay = strip_load(fs.get("0", ("?",)))
        facts = b.facts_at(site)
        parse = [x for x in walk(pay) if x[0] == "call" and x[1].split("::")[-1] in ("parse", "from_str", "from_str_radix")]
        detail = {"payload": show(pay, b), "guards": [show(f, b) for f in sorted(facts, key=repr)]}
        if not parse:
            R.bad("LB3", "LB3/Label::from_str/alpha-not-parsed", b.where(site), "the index of an alpha label is not the parsed number", detail)
            continue
        prop = [f for f in facts if f[0] == "in" and f[2] == frozenset(["Continue"]) and
                mentions(f[1], lambda x: x[0] == "call" and x[1].split("::")[-1] in ("parse", "from_str", "from_str_radix"))]
        okm = [f for f in facts if f[0] == "in" and f[2] == frozenset(["Ok"]) and
               mentions(f[1], lambda x: x[0] == "call" and x[1].split("::")[-1] in ("parse", "from_str", "from_str_radix"))]
        if not prop and not okm:
            R.bad("LB3", "LB3/Label::from_str/index-parse-not-propagated", b.where(site),
                  "the result of parsing the index is not propagated (`?`/match): a malformed index panics or is replaced by a "
                  "default instead of giving Err", detail)
            continue
        # the text parsed is the input without its first character
        src = parse[0][2][0] if parse[0][2] else None
        skip1 = src is not None and any(x[0] == "adapt" and x[1] == "skip" and strip_load(x[3][0]) == ("const", 1) and
                                        mentions(x[2], lambda y: y[0] == "iter" and y[2] == "chars") for x in walk(src))
        strip = src is not None and mentions(src, lambda x: x[0] == "call" and x[1].split("::")[-1] in ("strip_prefix",))
        if not (skip1 or strip):
            R.bad("LB3", "LB3/Label::from_str/alpha-tail", b.where(site),
                  "the number parsed is not the text after the alpha sign (exactly one character skipped)", {"parsed": show(src, b) if src else None})
        else:
            R.ok("LB3", b.where(site), "Alpha(n): n = parse(text without its first character), error propagated", detail)


def alpha_prefix(b):
    """char tested by starts_with on the Alpha path of from_str"""
    for site, e in agg_sites(b, "Label", "Alpha"):
        for f in b.facts_at(site):
            if f[0] == "bool" and f[2] is True:
                c = strip_load(f[1])
                if c[0] == "call" and c[1].split("::")[-1] == "starts_with" and len(c[2]) > 1:
                    a = strip_load(c[2][1])
                    if a[0] == "const":
                        return chr(a[1])
                    if a[0] == "str":
                        return a[1]
    return None


def lb45(F, R):
    fs = F.fn("Label", "from_str", "std::str::FromStr")
    dbg = F.fn("Label", "fmt", "std::fmt::Debug")
    dsp = F.fn("Label", "fmt", "std::fmt::Display")
    if fs is None or dbg is None or dsp is None:
        R.missing("LB4", "from_str / Debug / Display of Label")
        return
    col = Collector(F)
    raw = col.collect(dbg)
    R.analysed(dbg, len(raw))
    R.analysed(dsp)
    # Display delegates to Debug
    ok = any(t["callee"].get("decl") == "std::fmt::Debug::fmt" and "Label" in (t["callee"].get("gargs", "") + t["callee"].get("path", ""))
             for _, t in dsp.calls())
    if ok:
        R.ok("LB4", dsp.where(), "Display for Label delegates to Debug")
    else:
        R.bad("LB4", "LB4/Label::fmt(Display)/not-delegating", dsp.where(), "Display for Label does not delegate to Debug: "
              "to_string() and the debug form may disagree")
    # padding character agreement
    pad = pad_char(fs)
    filt = None
    str_arm_ok = False
    for e in raw:
        if e.kind == "call" and e.name == "filter" and any(f[0] == "in" and f[2] == frozenset(["Str"]) for f in e.facts):
            cb = F.bodies.get(strip_load(e.args[1])[1]) if strip_load(e.args[1])[0] == "closure" else None
            if cb is not None:
                summ = pred_summary(cb)
                if len(summ) == 1:
                    for f in summ[0]:
                        if f[0] == "notin" and len(f[2]) == 1:
                            filt = next(iter(f[2]))
            src = iter_source(e.args[0])
            ads = iter_adaptors(e.args[0])
            if src is not None and not ads:
                str_arm_ok = True
    if pad is None:
        R.missing("LB4", "padding constant of the text array in from_str", fs.where())
    elif filt is None:
        R.bad("LB4", "LB4/Label::fmt(Debug)/padding-filter-missing", dbg.where(),
              "printing a text label does not drop the padding character written by from_str")
    elif filt != pad:
        R.bad("LB4", "LB4/Label/padding-constants-disagree", dbg.where(),
              "from_str pads the text array with %r but Debug filters out %r: parsing then printing does not return the text"
              % (chr(pad), chr(filt)))
    elif not str_arm_ok:
        R.bad("LB4", "LB4/Label::fmt(Debug)/text-chars-restricted", dbg.where(), "printing a text label skips or limits characters before the padding filter")
    else:
        R.ok("LB4", dbg.where(), "padding written by from_str (%r) is exactly what Debug filters out" % chr(pad))
    # alpha prefix agreement
    pre = alpha_prefix(fs)
    tpl = None
    for e in raw:
        if e.kind == "call" and e.name == "new" and "Arguments" in e.path and any(f[0] == "in" and f[2] == frozenset(["Alpha"]) for f in e.facts):
            a = strip_load(e.args[0])
            if a[0] == "constx":
                tpl = decode_template(a[1])
            arg_ok = mentions(e.args[1], lambda x: x[0] == "vfield" and x[2] == "Alpha")
    if pre is None:
        R.missing("LB5", "alpha prefix test on the Alpha path of from_str", fs.where())
    elif tpl is None or not tpl[2]:
        R.bad("LB5", "LB5/Label::fmt(Debug)/alpha-template-unreadable", dbg.where(), "cannot establish LB5: format template of the Alpha arm not decodable")
    else:
        pieces, nph, _ = tpl
        if pieces[:1] == [pre] and pieces[1:] == [None] and arg_ok:
            R.ok("LB5", dbg.where(), "Debug prints an alpha label as %r followed by its index; from_str tests the same prefix" % pre)
        else:
            R.bad("LB5", "LB5/Label/alpha-prefix-disagree", dbg.where(),
                  "from_str recognises an alpha label by the prefix %r but Debug prints it as %r: the printed form does not parse back"
                  % (pre, pieces))
    # Greek arm prints exactly the character
    gt = None
    for e in raw:
        if e.kind == "call" and e.name == "new" and "Arguments" in e.path and any(f[0] == "in" and f[2] == frozenset(["Greek"]) for f in e.facts):
            a = strip_load(e.args[0])
            if a[0] == "constx":
                gt = (decode_template(a[1]), mentions(e.args[1], lambda x: x[0] == "vfield" and x[2] == "Greek"))
    if gt is None:
        # accepted alternative: write_char / to_string of the payload
        alt = [e for e in raw if e.kind == "call" and any(f[0] == "in" and f[2] == frozenset(["Greek"]) for f in e.facts)
               and any(mentions(a, lambda x: x[0] == "vfield" and x[2] == "Greek") for a in e.args)]
        if alt:
            R.ok("LB5", dbg.where(), "Greek arm prints its character")
        else:
            R.missing("LB5", "Greek arm of Debug", dbg.where())
    else:
        t, argok = gt
        if t and t[2] and t[0] == [None] and argok:
            R.ok("LB5", dbg.where(), "Greek arm prints exactly its character")
        else:
            R.bad("LB5", "LB5/Label::fmt(Debug)/greek-arm-decorated", dbg.where(),
                  "a single-character label is printed with extra text (%r): it does not parse back to the same label" % (t[0] if t else None))


def lb7(F, R):
    """RW7: Label's comparison traits are derived (structural equality on the enum value)"""
    need = {"std::cmp::PartialEq", "std::cmp::Eq", "std::hash::Hash", "std::cmp::Ord", "std::cmp::PartialOrd"}
    seen = {}
    for i in F.impls:
        if i["self_adt"] == "Label" and i["trait"] in need:
            seen[i["trait"]] = i["derived"]
    for t in sorted(need):
        if t not in seen:
            R.bad("RW7", "RW7/Label/%s-missing" % t.split("::")[-1], "(lib)", "Label does not implement %s" % t)
        elif not seen[t]:
            R.bad("RW7", "RW7/Label/%s-hand-written" % t.split("::")[-1], "(lib)",
                  "%s for Label is hand-written, not derived: label equality may differ from equality of the enum value "
                  "(kid() lookups under an equal-looking name can miss)" % t)
        else:
            R.ok("RW7", "(lib)", "%s for Label is derived" % t.split("::")[-1])

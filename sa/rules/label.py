"""C17: Label::from_str / Debug / Display — LB1..LB5."""
import ast
from core import *
from model import *


def decode_template(text):
    """literal pieces of a compact fmt::Arguments template: returns (pieces, n_placeholders, clean)"""
    try:
        raw = ast.literal_eval(text if text.startswith("b") else "b" + text)
    except Exception:
        return None
    pieces = []
    nph = 0
    i = 0
    clean = True
    while i < len(raw):
        b = raw[i]
        i += 1
        if b == 0:
            break
        if b < 0x80:
            pieces.append(raw[i:i + b].decode("utf-8", "replace"))
            i += b
        elif b == 0xc0:
            nph += 1
            pieces.append(None)
        elif b == 0xc8:
            nph += 1
            pieces.append(None)
            i += 2
        else:
            clean = False
            break
    return pieces, nph, clean


def agg_sites(body, adt, variant):
    out = []
    for site, kind, s in body.sites():
        if kind == "stmt" and s["k"] == "assign" and s["rv"]["k"] == "aggregate" and s["rv"].get("adt") == adt and \
                s["rv"].get("variant") == variant:
            out.append((site, body.expr_rvalue(s["rv"], site)))
    return out


def is_chars(e):
    """e mentions an iteration over the characters of a text"""
    return mentions(e, lambda x: x[0] == "iter" and x[2] in ("chars", "char_indices"))


def is_byte_len(e, sparam):
    """expression is a byte length of the input text"""
    core = strip_load(e)
    if core[0] == "call":
        n = core[1]
        if n.endswith("str>::len") or n.endswith("String::len"):
            return True
        if n.split("::")[-1] == "len" and core[2] and mentions(core[2][0], lambda x: x[0] == "call" and x[1].split("::")[-1] in ("as_bytes", "bytes", "into_bytes")):
            return True
        if n.split("::")[-1] == "count" and core[2] and mentions(core[2][0], lambda x: x[0] == "iter" and x[2] == "bytes"):
            return True
    return False


def is_char_count(e):
    core = strip_load(e)
    if core[0] == "call":
        last = core[1].split("::")[-1]
        if last == "count" and core[2] and is_chars(core[2][0]):
            ads = iter_adaptors(core[2][0])
            # `.take(k)` with k >= 2 cannot turn another count into 1 (nor 1 into another)
            if all(an == "take" and ex and strip_load(ex[0])[0] == "const" and type(strip_load(ex[0])[1]) is int and strip_load(ex[0])[1] >= 2
                   for an, ex in ads):
                return True
        if last == "len" and core[2] and strip_load(core[2][0])[0] == "call" and strip_load(core[2][0])[1].split("::")[-1] == "collect" \
                and strip_load(core[2][0])[2] and strip_load(strip_load(core[2][0])[2][0])[0] == "iter" and is_chars(strip_load(core[2][0])[2][0]):
            return True
    return False


def next_of_chars(f):
    """fact `discr(next(<plain chars iterator>)) ∈ S` -> (iterator, site, S)"""
    if f[0] != "in":
        return None
    d = strip_load(f[1])
    if d[0] != "discr":
        return None
    n = strip_load(d[1])
    if n[0] != "next":
        return None
    it = strip_load(n[1])
    if it[0] == "iter" and it[2] == "chars":
        return (strip_sites(it), n[2], f[2])
    return None


def lb1(F, R):
    b = F.fn("Label", "from_str", "std::str::FromStr")
    if b is None:
        R.missing("LB1", "<Label as FromStr>::from_str")
        return
    R.analysed(b, sum(1 for _ in b.sites()))
    greek = agg_sites(b, "Label", "Greek")
    R.floor("LB1", "constructions of Label::Greek in from_str", len(greek), 1, b.where())
    for site, e in greek:
        facts = b.facts_at(site)
        byte_f = [f for f in facts if f[0] in ("in", "notin", "cmp") and any(is_byte_len(x, None) for x in ([f[1]] if f[0] != "cmp" else [f[2], f[3]]))]
        char_f = [f for f in facts if f[0] == "in" and f[2] == frozenset([1]) and is_char_count(f[1])]
        # `match (chars.next(), chars.next()) { (Some(c), None) => ..`: two successive next() on one plain chars iterator,
        # the first Some and the second None, is a character count of exactly 1
        nx = [x for x in (next_of_chars(f) for f in facts) if x is not None]
        somes = [x for x in nx if x[2] == frozenset(["Some"])]
        nones = [x for x in nx if x[2] == frozenset(["None"])]
        if len(somes) == 1 and len(nones) == 1 and somes[0][0] == nones[0][0] and somes[0][1] != nones[0][1]:
            dom = b.dom()
            nexts = []
            for csite, t in b.calls():
                if t["callee"].get("name") == "next" and csite[0] in dom[site[0]]:
                    a0 = strip_load(b.call_args(t, csite)[0])
                    v0 = strip_load(deref_addr(b, a0))
                    if v0[0] == "iter" and strip_sites(v0) == somes[0][0]:
                        nexts.append((csite[0], a0[1] if a0[0] == "addr" else None))
            # the same iterator variable in both calls, and no other next() on it before
            if sorted(x[0] for x in nexts) == sorted([somes[0][1], nones[0][1]]) and somes[0][1] in dom[nones[0][1]] and \
                    len(set(x[1] for x in nexts)) == 1 and nexts[0][1] is not None:
                char_f = char_f or [("two-next", somes[0], nones[0])]
        detail = {"guards": [show(f, b) for f in sorted(facts, key=repr)]}
        if byte_f:
            R.bad("LB1", "LB1/Label::from_str/single-char-decided-on-bytes", b.where(site),
                  "the single-character variant is chosen by the UTF-8 byte length of the text, not by its number of "
                  "characters: a non-ASCII single character (every actual Greek letter) parses to the text variant, so "
                  "printing a Greek(c) label and parsing it back gives a different label", detail)
        elif not char_f:
            R.bad("LB1", "LB1/Label::from_str/single-char-not-decided-on-char-count", b.where(site),
                  "cannot establish LB1: the single-character variant is not guarded by a character count of exactly 1", detail)
        else:
            R.ok("LB1", b.where(site), "Label::Greek is chosen iff the text has exactly one character (chars-derived count)", detail)
        # payload is the first char of the text
        fs = dict(e[3])
        pay = strip_load(fs.get("0", ("?",)))
        if not is_chars(pay):
            R.bad("LB1", "LB1/Label::from_str/greek-payload", b.where(site), "Label::Greek does not carry a character of the text",
                  {"payload": show(pay, b)})


def unwrap_casts(x):
    x = strip_load(x)
    while x[0] == "cast":
        x = strip_load(x[2])
    return x


def lb2(F, R):
    b = F.fn("Label", "from_str", "std::str::FromStr")
    if b is None:
        R.missing("LB2", "<Label as FromStr>::from_str")
        return
    raw = Collector(F).collect(b)
    strs = agg_sites(b, "Label", "Str")
    R.floor("LB2", "constructions of Label::Str in from_str", len(strs), 1, b.where())
    arr = None
    for site, e in strs:
        a = strip_load(dict(e[3]).get("0", ("?",)))
        if a[0] != "repeat":
            R.bad("LB2", "LB2/Label::from_str/str-payload", b.where(site), "Label::Str does not carry the filled array", {"payload": show(a, b)})
        else:
            arr = a
    if arr is None:
        return
    if str(arr[2]) != "8":
        R.missing("LB2", "8-slot text array", b.where())
        return
    small = frozenset(range(0, 8))
    upto = frozenset(range(0, 9))

    def is_arr(x):
        x = unwrap_casts(x)
        if x[0] == "addr":
            try:
                x = strip_load(deref_addr(b, x))
            except Exception:
                return False
        return strip_sites(x) == strip_sites(arr)

    def arr_len(x):
        x = strip_load(x)
        return x[0] == "call" and x[1].split("::")[-1] == "len" and x[2] and is_arr(x[2][0])

    def get_mut_of(x):
        """x = <arr>.get_mut(i) -> i"""
        x = strip_load(x)
        if x[0] == "call" and x[1].split("::")[-1] == "get_mut" and len(x[2]) == 2 and is_arr(x[2][0]):
            return x[2][1]
        return None

    def slots_iter(x):
        return mentions(x, lambda y: y[0] == "iter" and y[2] == "iter_mut" and is_arr(y[1]))
    # ---- stores of characters into the array
    stores = []
    for e in raw:
        if e.kind != "write":
            continue
        loc = strip_load(e.loc)
        if loc[0] == "elem" and is_arr(loc[1]):
            stores.append((e, "index", loc[2]))
        elif loc[0] == "some" and get_mut_of(loc[1]) is not None:
            stores.append((e, "get_mut", get_mut_of(loc[1])))
        elif mentions(loc, lambda x: x[0] == "item" and slots_iter(x[1])):
            stores.append((e, "iter_mut", None))
    # a[..v.len()].copy_from_slice(&v) with v = all characters of the text
    copies = []
    for e in raw:
        if e.kind == "call" and e.name in ("copy_from_slice", "clone_from_slice") and len(e.args) == 2:
            dst = strip_load(e.args[0])
            if dst[0] == "slice" and is_arr(dst[1]):
                copies.append(e)
    if not stores and not copies:
        R.missing("LB2", "store of a character into the text array", b.where())
        return
    # every place an Err is built (in from_str or in a helper inlined into it), with what is known there
    errs = []
    for site, kind, st in b.sites():
        if kind == "stmt" and st["k"] == "assign" and st["rv"]["k"] == "aggregate" and st["rv"].get("adt") == "Result" and st["rv"].get("variant") == "Err":
            errs.append(b.facts_at(site))
    for e in raw:
        if e.kind == "call" and e.name in ("Err",):
            errs.append(e.facts)

    def count_rejected(facts):
        """the facts say: the text has more than 8 characters"""
        for f in facts:
            if f[0] == "notin" and f[2] == upto and is_char_count(f[1]):
                return True
            if f[0] == "cmp" and f[1] == "<" and is_char_count(f[3]) and (arr_len(f[2]) or strip_load(f[2]) == ("const", 8)):
                return True
        return False
    for e in copies:
        dst = strip_load(e.args[0])
        src = unwrap_casts(e.args[1])
        for _ in range(3):
            if src[0] == "call" and src[1].split("::")[-1] in ("deref", "as_slice", "as_ref") and src[2]:
                src = unwrap_casts(src[2][0])
        r = strip_load(dst[2])
        detail = {"store": "copy_from_slice", "guards": [show(f, e.body) for f in sorted(e.facts, key=repr) if "Level" not in repr(f)][:8]}
        whole = src[0] == "call" and src[1].split("::")[-1] == "collect" and src[2] and strip_load(src[2][0])[0] == "iter" and is_chars(src[2][0])
        rng_ok = False
        if r[0] == "agg" and r[1] in ("RangeTo", "Range"):
            fs2 = dict(r[3])
            end = strip_load(fs2.get("end", ("?",)))
            start_ok = r[1] == "RangeTo" or strip_load(fs2.get("start", ("?",))) == ("const", 0)
            rng_ok = start_ok and end[0] == "call" and end[1].split("::")[-1] == "len" and end[2] and \
                strip_sites(unwrap_casts(end[2][0])) == strip_sites(src)
        fits = any((f[0] == "in" and f[2] <= upto and is_char_count(f[1])) or
                   (f[0] == "cmp" and f[1] == "<=" and is_char_count(f[2]) and (arr_len(f[3]) or strip_load(f[3]) == ("const", 8)))
                   for f in e.facts)
        e.d["lb2"] = (whole, rng_ok, fits, detail)
    for e in copies:
        whole, rng_ok, fits, detail = e.d["lb2"]
        rej = any(count_rejected(ef) for ef in errs)
        if not whole or not rng_ok:
            R.bad("LB2", "LB2/Label::from_str/chars-not-all-visited", e.where(),
                  "the characters copied into the array are not all characters of the text, in order, from slot 0", detail)
        elif not fits:
            R.bad("LB2", "LB2/Label::from_str/store-not-bounded", e.where(),
                  "the characters are copied into the 8-slot array without a test that there are at most 8 of them: an over-long "
                  "text panics instead of returning Err", detail)
        elif not rej:
            R.bad("LB2", "LB2/Label::from_str/overlong-not-rejected", e.where(),
                  "a text longer than 8 characters is not rejected with Err", detail)
        else:
            R.ok("LB2", e.where(), "all characters copied to the first slots, at most 8 of them, a longer text gives Err", detail)
    for e, kind, idx in stores:
        facts = e.facts
        val = e.val
        detail = {"store": kind, "index": show(idx, e.body) if idx is not None else None,
                  "guards": [show(f, e.body) for f in sorted(facts, key=repr) if "Level" not in repr(f)][:8]}
        # (1) the store cannot leave the array, and all 8 slots are usable
        if kind == "index":
            bounded = None
            for f in facts:
                if f[0] == "in" and strip_sites(f[1]) == strip_sites(idx) and f[2] <= small:
                    bounded = f
            if bounded is None:
                R.bad("LB2", "LB2/Label::from_str/store-not-bounded", e.where(),
                      "a character is stored into the 8-slot array at an index that is not tested to be below 8: an over-long "
                      "text panics with an out-of-bounds index instead of returning Err", detail)
                continue
            if bounded[2] != small:
                R.bad("LB2", "LB2/Label::from_str/capacity-short", e.where(),
                      "characters are only stored at indexes %s: a text of 8 characters is not accepted" % sorted(bounded[2]), detail)
                continue
        # (2) the characters stored are all the characters of the text, the i-th one in the i-th slot
        item = None
        for x in list(walk(val)) + list(walk(e.loc)):
            if x[0] == "item" and is_chars(x[1]):
                item = x
        if item is None:
            R.bad("LB2", "LB2/Label::from_str/stored-char-not-from-text", e.where(), "the character stored is not a character of the text",
                  {"value": show(val, e.body)})
            continue
        ads = [a for a, _ in iter_adaptors(item[1])]
        v = strip_load(val)
        byref = None
        if kind in ("index", "get_mut"):
            i0 = strip_load(idx)
            pair = v[0] == "field" and v[2] == "(tuple)::1" and i0[0] == "field" and i0[2] == "(tuple)::0" and \
                strip_sites(strip_load(v[1])) == strip_sites(strip_load(i0[1])) and strip_load(v[1])[0] == "item"
            allowed = ("enumerate", "collect")
            # the slot number must count characters: `char_indices()` pairs each character with its BYTE offset
            if pair and mentions(item[1], lambda x: x[0] == "iter" and x[2] == "char_indices") and "enumerate" not in ads:
                R.bad("LB2", "LB2/Label::from_str/slot-index-is-byte-offset", e.where(),
                      "the slot a character is stored in is its byte offset in the text (char_indices), not its position among the "
                      "characters: a multi-byte character leaves holes in the array or pushes later characters past slot 7, so texts of "
                      "at most 8 characters are rejected and parsed labels differ from directly built ones", detail)
                continue
            # ... and come from the enumeration of the characters themselves
            if pair and (not ads or ads[-1] != "enumerate"):
                pair = False
        else:
            # zip of the slots with the characters: both sides of one zip item
            loc = strip_load(e.loc)
            both = v[0] == "field" and loc[0] == "field" and strip_sites(strip_load(v[1])) == strip_sites(strip_load(loc[1])) and \
                strip_load(v[1])[0] == "item"
            z = strip_load(strip_load(v[1])[1]) if both else None
            both = both and z[0] == "adapt" and z[1] == "zip" and len(z[3]) == 1
            if both and slots_iter(z[3][0]) and not slots_iter(z[2]):
                R.bad("LB2", "LB2/Label::from_str/zip-consumes-a-character", e.where(),
                      "the characters are zipped with the slots characters-first: when the slots run out the zip has already taken "
                      "(and dropped) the 9th character, so a text of exactly 9 characters is accepted and truncated", detail)
                continue
            pair = both and v[2] == "(tuple)::1" and loc[2] == "(tuple)::0" and strip_load(z[2])[0] == "iter" and slots_iter(z[2]) and is_chars(z[3][0])
            ads = []
            if pair:
                c = strip_load(z[3][0])
                if c[0] == "call" and c[1].split("::")[-1] == "by_ref" and strip_load(c[2][0])[0] == "iter":
                    byref = c        # slots.zip(chars.by_ref()): the zip asks the slots first, so no character is lost
                elif c[0] == "call" and c[1].split("::")[-1] == "collect" and strip_load(c[2][0])[0] in ("iter", "adapt"):
                    ads = [a for a, _ in iter_adaptors(c[2][0])]
                elif c[0] in ("iter", "adapt"):
                    ads = [a for a, _ in iter_adaptors(c)]
                else:
                    pair = False
            allowed = ("collect",)
        if [a for a in ads if a not in allowed]:
            R.bad("LB2", "LB2/Label::from_str/chars-not-all-visited", e.where(),
                  "the characters stored are not all characters of the text (adaptors %s): an over-long text is truncated "
                  "instead of rejected, or characters are dropped" % ads, detail)
            continue
        if not pair:
            R.bad("LB2", "LB2/Label::from_str/stored-char-not-the-enumerated-one", e.where(),
                  "the character stored at index i is not the i-th character of the text", {"value": show(val, e.body), "slot": show(e.loc, e.body)})
            continue
        # (3) a 9th character gives Err
        rej = False
        for efacts in errs:
            if count_rejected(efacts):
                rej = True
            for f in efacts:
                if kind == "index" and f[0] in ("in", "notin") and strip_sites(f[1]) == strip_sites(idx):
                    if (f[0] == "notin" and f[2] == small) or (f[0] == "in" and not (f[2] & small)):
                        rej = True
                if kind == "get_mut" and f[0] == "in" and f[2] == frozenset(["None"]) and strip_load(f[1])[0] == "discr":
                    gi = get_mut_of(strip_load(f[1])[1])
                    if gi is not None and strip_sites(strip_load(gi)) == strip_sites(strip_load(idx)):
                        rej = True
        if kind == "iter_mut" and byref is None:
            # zip stops silently at the shorter side: the store itself must be known to happen only when the text fits
            fits = any((f[0] == "in" and f[2] <= upto and is_char_count(f[1])) or
                       (f[0] == "cmp" and f[1] == "<=" and is_char_count(f[2]) and (arr_len(f[3]) or strip_load(f[3]) == ("const", 8)))
                       for f in facts)
            rej = rej and fits
        if kind == "iter_mut" and byref is not None:
            # after the zip loop: `if chars.next().is_some() { return Err }` on the very iterator the zip borrowed
            rej = False
            if e.body is b:
                def it_var(bb):
                    t = b.blocks[bb]["term"]
                    if t["k"] != "call" or not t["args"]:
                        return None
                    a0 = strip_load(b.call_args(t, (bb, b.term_idx(bb)))[0])
                    return a0[1] if a0[0] == "addr" else None
                dom = b.dom()
                for efacts in errs:
                    for f in efacts:
                        n = next_of_chars(f)
                        if n is not None and n[2] == frozenset(["Some"]) and isinstance(byref[3], int) and isinstance(n[1], int) and \
                                it_var(n[1]) is not None and it_var(n[1]) == it_var(byref[3]) and byref[3] in dom[n[1]]:
                            rej = True
        if not rej:
            R.bad("LB2", "LB2/Label::from_str/overlong-not-rejected", e.where(),
                  "a text longer than 8 characters is not rejected with Err on the path that refuses to store the 9th character",
                  detail)
        else:
            R.ok("LB2", e.where(), "slot i := i-th character of the text, the store stays inside the 8 slots, a 9th character gives Err", detail)


def pad_char(b):
    for site, e in agg_sites(b, "Label", "Str"):
        fs = dict(e[3])
        arr = strip_load(fs.get("0", ("?",)))
        if arr[0] == "repeat" and strip_load(arr[1])[0] == "const":
            return strip_load(arr[1])[1]
    return None


def lb3(F, R):
    b = F.fn("Label", "from_str", "std::str::FromStr")
    if b is None:
        R.missing("LB3", "<Label as FromStr>::from_str")
        return
    raw = Collector(F).collect(b)
    alphas = agg_sites(b, "Label", "Alpha")
    R.floor("LB3", "constructions of Label::Alpha in from_str", len(alphas), 1, b.where())
    for site, e in alphas:
        fs = dict(e[3])
        pay = strip_load(fs.get("0", ("?",)))
        facts = b.facts_at(site)
        parse = [x for x in walk(pay) if x[0] == "call" and x[1].split("::")[-1] in ("parse", "from_str", "from_str_radix")]
        detail = {"payload": show(pay, b), "guards": [show(f, b) for f in sorted(facts, key=repr)]}
        if not parse:
            R.bad("LB3", "LB3/Label::from_str/alpha-not-parsed", b.where(site), "the index of an alpha label is not the parsed number", detail)
            continue
        prop = [f for f in facts if f[0] == "in" and f[2] == frozenset(["Continue"]) and
                mentions(f[1], lambda x: x[0] == "call" and x[1].split("::")[-1] in ("parse", "from_str", "from_str_radix"))]
        okm = [f for f in facts if f[0] == "in" and f[2] == frozenset(["Ok"]) and
               mentions(f[1], lambda x: x[0] == "call" and x[1].split("::")[-1] in ("parse", "from_str", "from_str_radix"))]
        if not prop and not okm:
            R.bad("LB3", "LB3/Label::from_str/index-parse-not-propagated", b.where(site),
                  "the result of parsing the index is not propagated (`?`/match): a malformed index panics or is replaced by a "
                  "default instead of giving Err", detail)
            continue
        # the text parsed is the input without its first character
        src = parse[0][2][0] if parse[0][2] else None
        srcs = [src] if src is not None else []
        # a String built empty and filled by push/extend calls: what is pushed
        for x in (list(walk(src)) if src is not None else []):
            if x[0] == "call" and x[1].split("::")[-1] in ("new", "with_capacity") and "String" in x[1]:
                pushes = [p for p in raw if p.kind == "call" and p.name in ("push", "push_str", "extend") and p.args and
                          strip_sites(strip_load(p.args[0])) == strip_sites(x)]
                # every character pushed unconditionally (apart from the iteration itself)
                if len(pushes) == 1 and len(pushes[0].args) == 2:
                    pv = strip_load(pushes[0].args[1])
                    own = [f for f in pushes[0].facts if f not in facts and not (strip_load(f[1])[0] == "discr" and strip_load(strip_load(f[1])[1])[0] == "next")]
                    if pv[0] == "item" and not own:
                        srcs.append(pv[1])
                    elif pv[0] in ("iter", "adapt") and not own:
                        srcs.append(pv)
        skip1 = any(x[0] == "adapt" and x[1] == "skip" and strip_load(x[3][0]) == ("const", 1) and strip_load(x[2])[0] == "iter" and
                    strip_load(x[2])[2] == "chars" for sx in srcs for x in walk(sx))
        strip = any(mentions(sx, lambda x: x[0] == "call" and x[1].split("::")[-1] in ("strip_prefix",)) for sx in srcs)
        if not (skip1 or strip):
            R.bad("LB3", "LB3/Label::from_str/alpha-tail", b.where(site),
                  "the number parsed is not the text after the alpha sign (exactly one character skipped)", {"parsed": show(src, b) if src else None})
        else:
            R.ok("LB3", b.where(site), "Alpha(n): n = parse(text without its first character), error propagated", detail)


def alpha_prefix(b):
    """char tested by starts_with on the Alpha path of from_str"""
    for site, e in agg_sites(b, "Label", "Alpha"):
        for f in b.facts_at(site):
            c = None
            if f[0] == "bool" and f[2] is True:
                c = strip_load(f[1])
                if not (c[0] == "call" and c[1].split("::")[-1] == "starts_with" and len(c[2]) > 1):
                    c = None
            elif f[0] == "in" and f[2] == frozenset(["Some"]) and strip_load(f[1])[0] == "discr":
                c = strip_load(strip_load(f[1])[1])
                if not (c[0] == "call" and c[1].split("::")[-1] == "strip_prefix" and len(c[2]) > 1):
                    c = None
            if c is not None:
                a = strip_load(c[2][1])
                if a[0] == "const":
                    return chr(a[1])
                if a[0] == "str":
                    return a[1]
    return None


def printed_text(e):
    """for a fmt::Arguments::new(template, args) call event: the printed pieces, constant arguments substituted:
    a list of str (literal text) and ("arg", expr) items; None if the template cannot be decoded"""
    a = strip_load(e.args[0])
    if a[0] != "constx":
        return None
    t = decode_template(a[1])
    if t is None or not t[2]:
        return None
    argv = unwrap_casts(e.args[1]) if len(e.args) > 1 else ("array", ())
    items = list(argv[1]) if argv[0] == "array" else []
    k = 0
    out = []
    for p in t[0]:
        if p is not None:
            out.append(p)
            continue
        val = ("arg", ("?",))
        if k < len(items):
            it = strip_load(items[k])
            if it[0] == "call" and it[2] and it[1].split("::")[-1] == "new_display":
                v = strip_load(it[2][0])
                if v[0] == "const" and isinstance(v[1], int) and 0 <= v[1] < 0x110000:     # a char constant (named const such as ALPHA)
                    val = chr(v[1])
                elif v[0] == "str":
                    val = v[1]
                else:
                    val = ("arg", v)
        out.append(val)
        k += 1
    merged = []
    for x in out:
        if isinstance(x, str) and merged and isinstance(merged[-1], str):
            merged[-1] += x
        else:
            merged.append(x)
    return merged


def lb45(F, R):
    fs = F.fn("Label", "from_str", "std::str::FromStr")
    dbg = F.fn("Label", "fmt", "std::fmt::Debug")
    dsp = F.fn("Label", "fmt", "std::fmt::Display")
    if fs is None or dbg is None or dsp is None:
        R.missing("LB4", "from_str / Debug / Display of Label")
        return
    col = Collector(F)
    raw = col.collect(dbg)
    R.analysed(dbg, len(raw))
    R.analysed(dsp)
    # Display delegates to Debug
    ok = any(t["callee"].get("decl") == "std::fmt::Debug::fmt" and "Label" in (t["callee"].get("gargs", "") + t["callee"].get("path", ""))
             for _, t in dsp.calls())
    if ok:
        R.ok("LB4", dsp.where(), "Display for Label delegates to Debug")
    else:
        R.bad("LB4", "LB4/Label::fmt(Display)/not-delegating", dsp.where(), "Display for Label does not delegate to Debug: "
              "to_string() and the debug form may disagree")
    # padding character agreement
    pad = pad_char(fs)
    filt = None
    str_arm_ok = False
    for e in raw:
        if e.kind == "call" and e.name == "filter" and any(f[0] == "in" and f[2] == frozenset(["Str"]) for f in e.facts):
            cb = F.bodies.get(strip_load(e.args[1])[1]) if strip_load(e.args[1])[0] == "closure" else None
            if cb is not None:
                summ = pred_summary(cb)
                if len(summ) == 1:
                    for f in summ[0]:
                        if f[0] == "notin" and len(f[2]) == 1:
                            filt = next(iter(f[2]))
            src = iter_source(e.args[0])
            ads = iter_adaptors(e.args[0])
            if src is not None and not ads:
                str_arm_ok = True
                # ... and every character that passes the filter is written: the filtered iteration is collected / extended
                # into the text as a whole, or walked by a loop that emits each item under no further condition
                def is_filtered(x, e=e):
                    return x[0] == "adapt" and x[1] == "filter" and strip_sites(x[2]) == strip_sites(e.args[0]) and x[3] and \
                        strip_sites(x[3][0]) == strip_sites(e.args[1])
                users = [c for c in raw if c.kind == "call" and c is not e and any(mentions(a, is_filtered) for a in c.args)]
                whole = [c for c in users if c.name in ("collect", "from_iter", "extend", "join", "concat", "for_each")]
                loops = [c for c in users if c.name == "next"]
                if loops and not whole:
                    def the_char(a, depth=0):
                        """a is the loop's character itself (or its own text form)"""
                        a = strip_load(a)
                        if a[0] == "item":
                            return mentions(a[1], is_filtered)
                        if a[0] == "call" and a[1].split("::")[-1] in ("to_string", "encode_utf8", "as_str", "deref", "clone") and a[2] and depth < 3:
                            return the_char(a[2][0], depth + 1)
                        return False
                    emits = [c for c in users if c.name in ("push", "write_char", "push_str", "write_str") and len(c.args) > 1 and
                             the_char(c.args[1])]
                    cond = [f for c in emits for f in c.facts
                            if not (f[0] == "in" and strip_load(f[1])[0] == "discr") and "Level" not in repr(f)]
                    if not emits or cond:
                        str_arm_ok = False
                elif not whole:
                    str_arm_ok = False
        # the same as a loop: `for c in a { if c == PAD { continue } out.push(c) }`
        if e.kind == "call" and e.name in ("push", "write_char") and len(e.args) > 1 and \
                any(f[0] == "in" and f[2] == frozenset(["Str"]) for f in e.facts):
            items = [x for x in walk(e.args[1]) if x[0] == "item"]
            if items and mentions(items[0][1], lambda x: x[0] == "vfield" and x[2] == "Str") and not iter_adaptors(items[0][1]):
                on_item = [f for f in e.facts if mentions(f, lambda x: x == items[0]) and strip_load(f[1])[0] != "discr"]
                for f in on_item:
                    if f[0] == "notin" and len(f[2]) == 1 and strip_sites(strip_load(f[1])) == strip_sites(items[0]):
                        filt = next(iter(f[2]))
                        str_arm_ok = len(on_item) == 1
    if pad is None:
        R.missing("LB4", "padding constant of the text array in from_str", fs.where())
    elif filt is None:
        R.bad("LB4", "LB4/Label::fmt(Debug)/padding-filter-missing", dbg.where(),
              "printing a text label does not drop the padding character written by from_str")
    elif filt != pad:
        R.bad("LB4", "LB4/Label/padding-constants-disagree", dbg.where(),
              "from_str pads the text array with %r but Debug filters out %r: parsing then printing does not return the text"
              % (chr(pad), chr(filt)))
    elif not str_arm_ok:
        R.bad("LB4", "LB4/Label::fmt(Debug)/text-chars-restricted", dbg.where(), "printing a text label skips or limits characters before the padding filter")
    else:
        R.ok("LB4", dbg.where(), "padding written by from_str (%r) is exactly what Debug filters out" % chr(pad))
    # alpha prefix agreement
    pre = alpha_prefix(fs)
    txt = None
    for e in raw:
        if e.kind == "call" and e.name == "new" and "Arguments" in e.path and any(f[0] == "in" and f[2] == frozenset(["Alpha"]) for f in e.facts):
            txt = printed_text(e)
    shown = [x if isinstance(x, str) else "{}" for x in (txt or [])]
    if pre is None:
        R.missing("LB5", "alpha prefix test on the Alpha path of from_str", fs.where())
    elif txt is None:
        R.bad("LB5", "LB5/Label::fmt(Debug)/alpha-template-unreadable", dbg.where(), "cannot establish LB5: format template of the Alpha arm not decodable")
    else:
        if len(txt) == 2 and txt[0] == pre and isinstance(txt[1], tuple) and mentions(txt[1][1], lambda x: x[0] == "vfield" and x[2] == "Alpha"):
            R.ok("LB5", dbg.where(), "Debug prints an alpha label as %r followed by its index; from_str tests the same prefix" % pre)
        else:
            R.bad("LB5", "LB5/Label/alpha-prefix-disagree", dbg.where(),
                  "from_str recognises an alpha label by the prefix %r but Debug prints it as %r: the printed form does not parse back"
                  % (pre, shown))
    # Greek arm prints exactly the character
    gt = None
    for e in raw:
        if e.kind == "call" and e.name == "new" and "Arguments" in e.path and any(f[0] == "in" and f[2] == frozenset(["Greek"]) for f in e.facts):
            gt = printed_text(e) or []
    if gt is None:
        # accepted alternative: write_char / to_string of the payload
        alt = [e for e in raw if e.kind == "call" and any(f[0] == "in" and f[2] == frozenset(["Greek"]) for f in e.facts)
               and any(mentions(a, lambda x: x[0] == "vfield" and x[2] == "Greek") for a in e.args)]
        if alt:
            R.ok("LB5", dbg.where(), "Greek arm prints its character")
        else:
            R.missing("LB5", "Greek arm of Debug", dbg.where())
    else:
        if len(gt) == 1 and isinstance(gt[0], tuple) and mentions(gt[0][1], lambda x: x[0] == "vfield" and x[2] == "Greek"):
            R.ok("LB5", dbg.where(), "Greek arm prints exactly its character")
        else:
            R.bad("LB5", "LB5/Label::fmt(Debug)/greek-arm-decorated", dbg.where(),
                  "a single-character label is printed with extra text (%r): it does not parse back to the same label"
                  % [x if isinstance(x, str) else "{}" for x in gt])


def lb7(F, R):
    """RW7: Label's comparison traits are derived (structural equality on the enum value)"""
    need = {"std::cmp::PartialEq", "std::cmp::Eq", "std::hash::Hash", "std::cmp::Ord", "std::cmp::PartialOrd"}
    seen = {}
    for i in F.impls:
        if i["self_adt"] == "Label" and i["trait"] in need:
            seen[i["trait"]] = i["derived"]
    for t in sorted(need):
        if t not in seen:
            R.bad("RW7", "RW7/Label/%s-missing" % t.split("::")[-1], "(lib)", "Label does not implement %s" % t)
        elif not seen[t]:
            R.bad("RW7", "RW7/Label/%s-hand-written" % t.split("::")[-1], "(lib)",
                  "%s for Label is hand-written, not derived: label equality may differ from equality of the enum value "
                  "(kid() lookups under an equal-looking name can miss)" % t)
        else:
            R.ok("RW7", "(lib)", "%s for Label is derived" % t.split("::")[-1])

"""C08 / C09: save/load — SZ1..SZ5, LD1, LD2."""
from core import *
from model import *

SER = "_::_serde::Serialize"
DE = "_::_serde::Deserialize"
ALLOWED_OMIT = {"Sodg": {"next_v"}}
TYPES = ("Sodg", "Vertex", "Hex", "Label", "Persistence")


def ser_body(F, adt):
    for b in F.all_bodies():
        if b.self_adt == adt and b.trait and b.trait.endswith("Serialize") and b.name == "serialize" and b.kind == "AssocFn":
            return b
    return None


def de_bodies(F, adt):
    """bodies of the derived Deserialize machinery of adt (visitor methods included)"""
    key1 = "Deserialize<'de> for %s>" % adt
    key2 = "Deserialize<'de> for %s<" % adt
    return [b for b in F.all_bodies() if (key1 in b.path or key2 in b.path)]


def only_try_facts(facts):
    for f in facts:
        if f[0] == "in" and f[2] <= frozenset(["Continue", "Some", "Ok"]):
            continue
        return False
    return True


def writer_fields(b):
    out = []
    for site, t in b.calls():
        c = t["callee"]
        if c.get("name") in ("serialize_field", "serialize_element", "skip_field"):
            args = [deref_addr(b, a) for a in b.call_args(t, site)]
            name = strip_load(args[1]) if len(args) > 2 else None
            val = strip_load(args[-1])
            out.append({"site": site, "call": c["name"], "name": name[1] if name and name[0] == "str" else None,
                        "val": val, "facts": b.facts_at(site)})
    return out


def reader_struct(F, adt):
    """(visit_seq body, site, aggregate) of the derived struct visitor"""
    for b in de_bodies(F, adt):
        if b.name == "visit_seq":
            for site, kind, s in b.sites():
                if kind == "stmt" and s["k"] == "assign" and s["rv"]["k"] == "aggregate" and s["rv"].get("adt") == adt:
                    return b, site, b.expr_rvalue(s["rv"], site)
    return None


def element_rank(b, e):
    """if e is the payload of the k-th next_element call of b (in dominance order) return k"""
    calls = [(site, t) for site, t in b.calls() if t["callee"].get("name") == "next_element"]
    calls.sort(key=lambda x: sum(1 for y in calls if b.dominates(y[0], x[0])))
    core = strip_load(e)
    for _ in range(4):
        if core[0] == "some":
            core = strip_load(core[1])
    if core[0] == "call" and core[1].split("::")[-1] == "next_element":
        for k, (site, t) in enumerate(calls):
            if site[0] == core[3]:
                return k
    return None


def sz1(F, R):
    # ---- structs
    for adt in ("Sodg", "Vertex"):
        decl = [f["name"] for f in F.adts[adt]["variants"][0]["fields"]] if adt in F.adts else None
        sb = ser_body(F, adt)
        rd = reader_struct(F, adt)
        if decl is None or sb is None or rd is None:
            R.missing("SZ1", "derived serde impls of %s" % adt)
            continue
        R.analysed(sb, sum(1 for _ in sb.sites()))
        R.analysed(rd[0], sum(1 for _ in rd[0].sites()))
        omit = ALLOWED_OMIT.get(adt, set())
        wf = writer_fields(sb)
        written = []
        for w in wf:
            v = w["val"]
            okv = v[0] == "field" and v[2] == "%s::%s" % (adt, w["name"]) and strip_load(v[1]) == ("param", 1)
            if w["call"] == "skip_field":
                R.bad("SZ1", "SZ1/%s::%s/skipped-on-write" % (adt, w["name"]), sb.where(w["site"]), "field skipped when writing")
                continue
            if not okv:
                R.bad("SZ1", "SZ1/%s::%s/written-value-not-the-field" % (adt, w["name"]), sb.where(w["site"]),
                      "the value written under the name `%s` is not that field of the value being saved (renamed, wrapped or "
                      "converted on the way out)" % w["name"], {"value": show(v, sb)})
                continue
            if not only_try_facts(w["facts"]):
                R.bad("SZ1", "SZ1/%s::%s/written-conditionally" % (adt, w["name"]), sb.where(w["site"]),
                      "field `%s` is written only under a condition (skip_serializing_if): the image layout depends on the value" % w["name"],
                      {"guards": [show(f, sb) for f in w["facts"]]})
                continue
            written.append(w["name"])
        for f in decl:
            if f in omit:
                if f in written:
                    R.bad("SZ1", "SZ1/%s::%s/allowed-omission-written" % (adt, f), sb.where(), "field %s is written although the reader does not read it" % f)
                continue
            if f not in written:
                R.bad("SZ1", "SZ1/%s::%s/not-written" % (adt, f), sb.where(),
                      "field `%s` of %s is not part of the saved image: after load() it has its default value (%s)"
                      % (f, adt, {"branch": "every vertex absent", "stores": "counters lost", "branches": "group membership lost",
                                  "persistence": "read/unread status lost", "data": "data lost", "edges": "edges lost",
                                  "vertices": "graph lost"}.get(f, "state lost")))
            else:
                R.ok("SZ1", sb.where(), "%s.%s is written unconditionally from the field itself" % (adt, f))
        # reader
        rb, rsite, agg = rd
        got = dict(agg[3])
        order = [w for w in written]
        for f in decl:
            v = strip_load(got.get(f, ("?",)))
            rank = element_rank(rb, v)
            if f in omit:
                isdef = v[0] == "call" and v[1].split("::")[-1] == "default"
                if isdef:
                    R.ok("SZ1", rb.where(rsite), "%s.%s (allowed omission) is rebuilt by Default and consumes no input" % (adt, f))
                elif rank is not None:
                    R.bad("SZ1", "SZ1/%s::%s/omission-read-but-not-written" % (adt, f), rb.where(rsite),
                          "field %s is read from the image but never written: every load fails or reads shifted data" % f)
                else:
                    R.bad("SZ1", "SZ1/%s::%s/omission-not-default" % (adt, f), rb.where(rsite), "omitted field is not rebuilt by Default", {"value": show(v, rb)})
                continue
            if rank is None:
                R.bad("SZ1", "SZ1/%s::%s/not-read" % (adt, f), rb.where(rsite),
                      "field `%s` of %s is not restored from the image (defaulted / skipped on load) although it is written: "
                      "the loaded graph differs from the saved one" % (f, adt), {"value": show(v, rb)})
            elif f in order and order.index(f) != rank:
                R.bad("SZ1", "SZ1/%s::%s/order-disagrees" % (adt, f), rb.where(rsite),
                      "writer and reader disagree on the position of field `%s` (%d vs %d)" % (f, order.index(f), rank))
            else:
                R.ok("SZ1", rb.where(rsite), "%s.%s is restored from element %s of the image, as written" % (adt, f, rank))
    # ---- enums
    for adt in ("Hex", "Label", "Persistence"):
        if adt not in F.adts:
            R.missing("SZ1", adt)
            continue
        variants = [v["name"] for v in F.adts[adt]["variants"]]
        nfields = {v["name"]: len(v["fields"]) for v in F.adts[adt]["variants"]}
        sb = ser_body(F, adt)
        if sb is None:
            R.missing("SZ1", "Serialize for " + adt)
            continue
        R.analysed(sb, sum(1 for _ in sb.sites()))
        wv = {}
        for site, t in sb.calls():
            c = t["callee"]
            if c.get("name") in ("serialize_unit_variant", "serialize_newtype_variant", "serialize_tuple_variant", "serialize_struct_variant"):
                args = [strip_load(deref_addr(sb, a)) for a in sb.call_args(t, site)]
                idx = args[2][1] if args[2][0] == "const" else None
                nm = args[3][1] if args[3][0] == "str" else None
                wv[nm] = idx
        for i, v in enumerate(variants):
            if wv.get(v) != i:
                R.bad("SZ1", "SZ1/%s::%s/variant-not-written" % (adt, v), sb.where(),
                      "variant %s of %s is not written under its own index/name (skipped or renumbered): saving such a value fails "
                      "or loads as another variant" % (v, adt), {"written": wv})
            else:
                R.ok("SZ1", sb.where(), "%s::%s is written as variant %d" % (adt, v, i))
        # reader: every variant is constructed from input
        built = {}
        for b in de_bodies(F, adt):
            for site, kind, s in b.sites():
                if kind == "stmt" and s["k"] == "assign" and s["rv"]["k"] == "aggregate" and s["rv"].get("adt") == adt:
                    e = b.expr_rvalue(s["rv"], site)
                    srcs = []
                    for fname, fe in e[3]:
                        core = strip_load(fe)
                        fromin = mentions(core, lambda x: x[0] == "call" and x[1].split("::")[-1] in
                                          ("next_element", "newtype_variant", "next_value", "newtype_variant_seed", "deserialize"))
                        srcs.append(fromin)
                    built[e[2]] = (b, site, srcs)
            # newtype variants: Result::map(newtype_variant(..), Adt::Variant)
            for site, t in b.calls():
                if t["callee"].get("name") == "map":
                    args = [strip_load(deref_addr(b, a)) for a in b.call_args(t, site)]
                    if len(args) == 2 and args[1][0] == "fn" and args[1][1].startswith(adt + "::"):
                        vname = args[1][1].split("::")[-1]
                        fromin = mentions(args[0], lambda x: x[0] == "call" and x[1].split("::")[-1] in ("newtype_variant", "newtype_variant_seed"))
                        built[vname] = (b, site, [fromin])
                # ... the same once the combinator is part of the control flow: a call of the variant's constructor function
                c = t["callee"]
                if (c.get("decl") or "").startswith(adt + "::") and c.get("synthetic") and (c.get("decl") or "").split("::")[-1] in variants:
                    args = [strip_load(deref_addr(b, a)) for a in b.call_args(t, site)]
                    fromin = all(mentions(a, lambda x: x[0] == "call" and x[1].split("::")[-1] in ("newtype_variant", "newtype_variant_seed"))
                                 for a in args) and bool(args)
                    built[c["decl"].split("::")[-1]] = (b, site, [fromin])
        for v in variants:
            if v not in built:
                R.bad("SZ1", "SZ1/%s::%s/variant-not-read" % (adt, v), "(lib)", "variant %s of %s is never constructed by the reader" % (v, adt))
            else:
                b, site, srcs = built[v]
                R.analysed(b)
                if len(srcs) != nfields[v] or not all(srcs):
                    R.bad("SZ1", "SZ1/%s::%s/payload-not-read" % (adt, v), b.where(site),
                          "a payload field of %s::%s is defaulted instead of read from the image" % (adt, v))
                else:
                    R.ok("SZ1", b.where(site), "%s::%s is rebuilt from %d payload element(s) of the image" % (adt, v, len(srcs)))


def sz2(F, R):
    n = 0
    for adt in TYPES:
        for tr in ("Serialize", "Deserialize"):
            imp = [i for i in F.impls if i["self_adt"] == adt and i["trait"] and i["trait"].endswith("::" + tr)]
            if not imp:
                R.bad("SZ2", "SZ2/%s/%s-missing" % (adt, tr), "(lib)", "%s does not implement %s" % (adt, tr))
            elif not (imp[0]["derived"] and imp[0]["from_expansion"]):
                R.bad("SZ2", "SZ2/%s/%s-hand-written" % (adt, tr), imp[0]["span"],
                      "%s for %s is hand-written: writer and reader are no longer generated from the same field list" % (tr, adt))
            else:
                n += 1
                R.ok("SZ2", imp[0]["span"], "%s for %s is derived" % (tr, adt))
    R.floor("SZ2", "derived serde impls", n + sum(1 for v in R.violations if v["rule"] == "SZ2"), 10)
    # a derived impl that hands a field to a hand-written function (`#[serde(with / serialize_with / deserialize_with = "..")]`): that
    # field is no longer written and read by generated code
    seen = set()
    hand_written = {rb["path"] for rb in F.raw["bodies"] if not rb.get("derived") and not rb.get("from_expansion") and rb.get("kind") != "Closure"}
    for rb in F.raw["bodies"]:          # the bodies as compiled, before helpers are inlined
        if not (rb.get("derived") or rb.get("from_expansion")) or "_serde" not in rb["path"]:
            continue
        for bi, blk in enumerate(rb["blocks"]):
            t = blk["term"]
            if t is None or t["k"] != "call" or not t["callee"].get("local"):
                continue
            key = t["callee"].get("path", "")
            if key not in hand_written or key in seen:
                continue
            seen.add(key)
            R.bad("SZ2", "SZ2/custom-field-codec/%s" % short_path(key), "%s:%s" % (rb.get("file", "?"), t.get("line", "?")),
                  "a derived (de)serialisation impl calls the hand-written %s (`#[serde(with / serialize_with / deserialize_with)]`): the "
                  "field it handles is not written and read by generated code from the same declaration" % short_path(key))


REMOVERS = ("remove", "clear", "retain", "drain", "pop", "truncate", "take")


def sz6(F, R):
    """C09, container premise (DESIGN C09, "holed table last").  emap's reader (audited, DESIGN §3) collects all entries of a table,
    then builds `with_capacity_none(number of entries)` and inserts every key: a table that was saved with a removed slot (some key >=
    the number of entries) makes that insert panic *once the table has been decoded completely*.  A cut inside or before the table
    ends in UnexpectedEof first.  So for every prefix to be rejected rather than to panic, a table of the graph on which a slot
    removal is reachable anywhere in the crate must be the LAST section of the image, written and read (then its complete decode is
    the complete image, k = size, outside the property).  Which tables can have holes is read off the code (who-may-call on
    emap::Map::remove & co.), the section order off the derived impls' MIR; nothing is frozen."""
    import gc_rules as G
    c = G.context(F)
    holed = {}
    nops = 0
    for e in c.all:
        if e.kind == "map_call" and (e.field or "").startswith("Sodg::"):
            nops += 1
            if e.op in REMOVERS:
                holed.setdefault(e.field.split("::")[1], []).append(e)
    sb = ser_body(F, "Sodg")
    rd = reader_struct(F, "Sodg")
    if sb is None or rd is None or "Sodg" not in F.adts:
        R.missing("SZ6", "derived serde impls of Sodg")
        return
    R.analysed(sb)
    R.analysed(rd[0])
    wf = [w for w in writer_fields(sb) if w["call"] != "skip_field" and w["name"]]
    # order of the sections as written: dominance order of the serialize_field calls
    wf.sort(key=lambda w: sum(1 for y in wf if sb.dominates(y["site"], w["site"])))
    worder = [w["name"] for w in wf]
    rb, rsite, agg = rd
    got = dict(agg[3])
    rrank = {}
    for f in (x["name"] for x in F.adts["Sodg"]["variants"][0]["fields"]):
        k = element_rank(rb, strip_load(got.get(f, ("?",))))
        if k is not None:
            rrank[f] = k
    R.floor("SZ6", "sections of the image found in the derived writer", len(worder), 3)
    R.floor("SZ6", "root bodies of the crate scanned for slot removals", sum(1 for _ in F.roots()), 40)
    if not holed:
        R.ok("SZ6", "(crate)", "no slot removal is reachable on any table of the graph (%d whole-table operations): no saved table has a "
             "hole, every table decodes or ends in UnexpectedEof" % nops)
        return
    for f, evs in sorted(holed.items()):
        where = evs[0].where()
        if f not in worder:
            R.ok("SZ6", where, "table `%s` can lose slots but is not part of the image" % f)
            continue
        after_w = worder[worder.index(f) + 1:]
        after_r = sorted(g for g, k in rrank.items() if f in rrank and k > rrank[f])
        if after_w or after_r:
            R.bad("SZ6", "SZ6/Sodg::%s/holed-table-not-last-section" % f, sb.where(wf[worder.index(f)]["site"]),
                  "slots of table `%s` can be removed (%s, %s), so a saved image may hold a table with a hole; emap's reader panics on such a "
                  "table as soon as it has been decoded completely. The section is followed by %s in the image: every cut inside those "
                  "later sections makes load() panic instead of returning Err. It must be the last section."
                  % (f, evs[0].fn_key(), evs[0].op, ", ".join("`%s`" % x for x in (after_w or after_r))),
                  {"written_order": worder, "read_rank": rrank, "removal_sites": [e.where() for e in evs]})
        else:
            R.ok("SZ6", sb.where(wf[worder.index(f)]["site"]),
                 "table `%s` (slots removable at %d site(s), e.g. %s) is the last section of the image as written (%s) and as read: it "
                 "cannot be decoded completely from a proper prefix" % (f, len(evs), evs[0].fn_key(), " < ".join(worder)))


def fallible_events(raw, krate=None, pathprefix=None, names=None):
    out = []
    for e in raw:
        if e.kind != "call" or e.exp:
            continue
        if krate is not None and e.krate != krate:
            continue
        if pathprefix is not None and not e.path.startswith(pathprefix):
            continue
        if names is not None and not any(n in e.name for n in names):
            continue
        out.append(e)
    return out


def call_expr(ev):
    """the ("call", path, args, bb) expression an event's result is referred to by"""
    return ("call", ev.path, tuple(ev.args), ev.site[0])


def mentions_call(e, ev):
    key = (ev.path, ev.site[0])
    return mentions(e, lambda x: x[0] == "call" and len(x) > 3 and (x[1], x[3]) == key)


def unwrap_views(e):
    e = strip_load(e)
    for _ in range(4):
        if e[0] == "call" and e[1].split("::")[-1] in ("deref", "as_slice", "as_ref", "borrow") and e[2]:
            e = strip_load(e[2][0])
        elif e[0] == "cast":
            e = strip_load(e[2])
    return e


def ok_values(b):
    """(site, payload expression, chain) of every way the function returns success, and the other results.  The returned
    value is traced back through copies to the statements / calls that produced it (closures handed to Option/Result
    combinators are part of the function's own control flow by now), so `site` is where the Ok(..) was built and the path
    facts there say which fallible steps succeeded."""
    oks, others = [], []
    seen = set()
    for r in b.returns:
        for dsite, kind in b.origins(0, (r, b.term_idx(r))):
            if dsite is None or dsite in seen:
                continue
            seen.add(dsite)
            blk = b.blocks[dsite[0]]
            if kind == "call":
                e = b.expr_call(blk["term"], dsite)
            else:
                e = b.expr_rvalue(blk["stmts"][dsite[1]]["rv"], dsite)
            c = strip_load(e)
            arms = list(c[1]) if c[0] == "phi" else [c]
            for a in arms:
                a = strip_load(a)
                if a[0] == "agg" and a[2] == "Ok":
                    oks.append((dsite, strip_load(dict(a[3])["0"]), None))
                elif a[0] in ("optmap", "andthen"):
                    oks.append((dsite, payload(a), a))          # combinator chain: Ok iff every link is Ok
                elif a[0] == "agg" and a[2] == "Err":
                    others.append((dsite, a, "err"))
                elif a[0] == "call" and a[1].split("::")[-1] == "from_residual":
                    others.append((dsite, a, "err"))
                else:
                    others.append((dsite, a, "other"))
                    core = a
                    for _ in range(4):
                        if core[0] in ("ctx", "try"):
                            core = strip_load(core[1])
                    if core[0] == "call":
                        # a fallible step's own Result handed back: its success is the function's success
                        oks.append((dsite, payload(a), a))
    # the same success value seen twice (a fallible step's Result matched and rebuilt as Ok(..)) is one success result
    uniq = []
    for o in sorted(oks, key=lambda o: o[2] is not None):
        if not any(strip_sites(o[1]) == strip_sites(u[1]) for u in uniq):
            uniq.append(o)
    return uniq, others


def success_deps(e):
    """fallible calls whose success a combinator-chain value depends on"""
    out = []
    e = strip_load(e)
    if e[0] == "optmap":
        out += success_deps(e[2])
    elif e[0] == "andthen":
        out += success_deps(e[1]) + success_deps(e[2])
    elif e[0] in ("ctx", "try", "some", "opt"):
        out += success_deps(e[1])
    elif e[0] == "call":
        out.append(e)
    elif e[0] == "phi":
        for x in e[1]:
            out += success_deps(x)
    return out


def sz345(F, R, roundtrip=True):
    save = F.fn("Sodg", "save")
    load = F.fn("Sodg", "load")
    if save is None or load is None:
        R.missing("SZ3", "Sodg::save / Sodg::load")
        return
    sraw = Collector(F, stop_names=("len", "keys")).collect(save)
    lraw = Collector(F, stop_names=("len", "keys")).collect(load)
    R.analysed(save, len(sraw))
    R.analysed(load, len(lraw))
    # ---- save
    sers = fallible_events(sraw, krate="bincode", names=("serialize",))
    fsops = fallible_events(sraw, pathprefix="std::fs::") + [e for e in sraw if e.kind == "call" and e.name in ("write_all",)]
    if len(sers) != 1:
        R.bad("SZ3", "SZ3/Sodg::save/serialize-calls", save.where(), "cannot establish SZ3: save() has %d bincode serialisation calls" % len(sers))
    else:
        a = strip_load(sers[0].args[-1])
        if a != ("param", 1):
            R.bad("SZ3", "SZ3/Sodg::save/not-self-whole", sers[0].where(), "save() does not serialise the whole graph", {"arg": show(a, save)})
        else:
            R.ok("SZ3", sers[0].where(), "save(): bincode serialisation of the whole `self`")
    ws = [e for e in fsops if e.name == "write" and "OpenOptions" not in e.path]
    # the same with an explicit handle: File::create(path) + write_all(file, bytes)
    creates = [e for e in fsops if e.name == "create" and "File" in e.path]
    wall = [e for e in fsops if e.name == "write_all"]
    via_handle = len(creates) == 1 and len(wall) == 1 and len(fsops) == 2 and not ws and \
        mentions_call(wall[0].args[0], creates[0])
    path_arg = 0
    # ... or OpenOptions::new().write(true).create(true).truncate(true).open(path) + write_all: what fs::write does; without
    # `truncate(true)` the tail of a longer old image stays in the file
    oopen = [e for e in fsops if e.name == "open" and "OpenOptions" in e.path]
    if not via_handle and len(oopen) == 1 and len(wall) == 1 and not ws and not creates and len(oopen[0].args) == 2:
        chain = oopen[0].args[0]

        def opt(name, val=True):
            return mentions(chain, lambda x: x[0] == "call" and "OpenOptions" in x[1] and x[1].split("::")[-1] == name and len(x[2]) == 2 and
                            strip_load(x[2][1])[0] == "const" and bool(strip_load(x[2][1])[1]) is val)
        others = [e for e in fsops if e not in oopen and e not in wall and not ("OpenOptions" in e.path and e.name in ("new", "write", "create", "truncate"))]
        if opt("write") and opt("create") and opt("truncate") and not opt("append") and not opt("create_new") and not others and \
                mentions_call(wall[0].args[0], oopen[0]):
            via_handle, creates, path_arg = True, oopen, 1
    if not via_handle and (len(ws) != 1 or len(fsops) != 1):
        R.bad("SZ3", "SZ3/Sodg::save/file-writes", save.where(), "cannot establish SZ3: save() performs %d file operations (expected one fs::write)" % len(fsops))
    elif sers:
        w = wall[0] if via_handle else ws[0]
        args = [strip_load(a) for a in w.args]
        okp = (strip_load(creates[0].args[path_arg]) if via_handle else args[0]) == ("param", 2)
        data = args[1]
        okd = mentions_call(data, sers[0]) and \
            not mentions(data, lambda x: x[0] in ("slice", "subslice") or (x[0] == "call" and x[1].split("::")[-1] in
                                                                          ("truncate", "split_at", "take", "get", "drain", "split_off")))
        muts = [e for e in sraw if e.kind == "call" and e.args and
                strip_sites(strip_load(e.args[0])) == strip_sites(data) and
                e.name in ("truncate", "clear", "push", "pop", "drain", "resize", "retain", "extend_from_slice", "insert", "remove", "split_off", "swap_remove", "reverse", "sort")]
        if okp and okd and not muts:
            R.ok("SZ3", w.where(), "save(): fs::write(path, exactly the serialised bytes)")
        else:
            R.bad("SZ3", "SZ3/Sodg::save/written-bytes-not-the-image", w.where(),
                  "the bytes written to the file are not exactly the serialised image (cut, altered or another path)",
                  {"path_ok": okp, "data": show(data, save), "mutations": [m.name for m in muts]})
    # ---- load
    reads = fallible_events(lraw, pathprefix="std::fs::")
    des = fallible_events(lraw, krate="bincode", names=("deserialize",))
    # the same with an explicit handle: File::open(path) + read_to_end(file, &mut fresh vector)
    opens = [e for e in reads if e.name == "open" and "File" in e.path]
    rte = [e for e in lraw if e.kind == "call" and not e.exp and e.name == "read_to_end"]
    via_handle = len(reads) == 1 and len(opens) == 1 and len(rte) == 1 and mentions_call(rte[0].args[0], opens[0])
    if not via_handle and (len(reads) != 1 or reads[0].name != "read"):
        R.bad("SZ4", "SZ4/Sodg::load/file-reads", load.where(), "cannot establish SZ4: load() does not read the file with one fs::read")
        return
    if len(des) != 1:
        R.bad("SZ4", "SZ4/Sodg::load/deserialize-calls", load.where(), "cannot establish SZ4: load() has %d bincode deserialisation calls" % len(des))
        return
    rd, de = reads[0], des[0]
    ra = strip_load(rd.args[0])
    da = strip_load(de.args[-1])
    from_read = mentions_call(da, rd)
    if via_handle:
        # the buffer handed to read_to_end is a vector created empty, and it is what gets decoded; nothing else touches it
        buf = strip_load(rte[0].args[1])
        fresh = buf[0] == "call" and buf[1].split("::")[-1] in ("new", "with_capacity") and "Vec" in buf[1]
        others_on_buf = [e for e in lraw if e.kind == "call" and e is not rte[0] and e is not de and e.args and
                         strip_sites(strip_load(e.args[0])) == strip_sites(buf) and
                         e.name not in ("len", "as_slice", "deref", "as_ref", "is_empty", "capacity")]
        from_read = fresh and strip_sites(unwrap_views(da)) == strip_sites(buf) and not others_on_buf and \
            ev_dominates(rte[0], de)
    cut = mentions(da, lambda x: x[0] in ("slice", "subslice") or (x[0] == "call" and x[1].split("::")[-1] in
                                                                   ("split_at", "get", "take", "first", "last", "chunks", "split_first", "trim_ascii")))
    if ra == ("param", 1) and from_read and not cut:
        R.ok("SZ4", de.where(), "load(): deserialises the complete byte vector read from `path`")
    else:
        R.bad("SZ4", "SZ4/Sodg::load/input-not-the-whole-file", de.where(),
              "load() does not decode exactly the complete content of the file at `path`", {"input": show(da, load), "path": show(ra, load)})
    # load() refuses nothing by itself: every Err it returns is the propagated failure of the file read or of the decode.  A check of
    # its own before the decode (a size bound, a magic number) refuses some image that save() wrote — unless it can never fire, which
    # is a fact about values no rule here establishes (fail closed)
    for site, kind, st in (load.sites() if roundtrip else ()):
        if kind == "stmt" and st["k"] == "assign" and st["rv"]["k"] == "aggregate" and st["rv"].get("variant") == "Err" and not st.get("exp"):
            fs_ = load.facts_at(site)
            # an Err built where a fallible call has failed (a `match` arm re-wrapping the error of the read or of the decode) is
            # propagation spelled out
            rewrap = any(x[0] == "in" and x[2] <= frozenset(["Err", "Break", "None"]) for x in fs_)
            try:
                pay = load.expr_rvalue(st["rv"], site)
                # ... or whose payload is (made from) the error of another result: a combinator chain written out
                if mentions(pay, lambda x: x[0] == "vfield" and len(x) > 2 and x[2] == "Err"):
                    rewrap = True       # the payload is (made from) the Err payload of a result: not a fresh error
            except Exception:
                pass
            if not rewrap and not any(x[0] == "in" and x[2] <= frozenset(["Continue", "Ok"]) and mentions_call(x[1], de) for x in fs_):
                R.bad("SZ4", "SZ4/Sodg::load/own-error-before-decode", load.where(site),
                      "load() builds an Err of its own before the image is decoded (a size or format check): an image written by save() "
                      "can be refused — e.g. the small image of a graph of capacity 1",
                      {"guards": [show(f, load)[:120] for f in load.facts_at(site) if "Level" not in repr(f)][:5]})
    # once the image has been decoded, load() succeeds: no Err is produced on a path on which the decode call returned Ok
    for site, kind, st in (load.sites() if roundtrip else ()):
        is_err = kind == "stmt" and st["k"] == "assign" and st["rv"]["k"] == "aggregate" and st["rv"].get("variant") == "Err"
        is_res = kind == "term" and st["k"] == "call" and st["callee"].get("name") == "from_residual"
        if not (is_err or is_res):
            continue
        if any(x[0] == "in" and x[2] <= frozenset(["Continue", "Ok"]) and mentions_call(x[1], de) for x in load.facts_at(site)):
            R.bad("SZ4", "SZ4/Sodg::load/err-after-successful-decode", load.where(site),
                  "load() can fail although the image was decoded: a graph that save() wrote is rejected")
    oks, others = ok_values(load)
    if len(oks) != 1:
        R.bad("SZ4", "SZ4/Sodg::load/ok-returns", load.where(), "cannot establish SZ4: load() has %d success results" % len(oks))
        return
    osite, val, chain = oks[0]
    is_dec = mentions_call(val, de) and not mentions(val, lambda x: x[0] == "agg" and x[1] == "Sodg")
    pure = strip_load(val)
    for _ in range(4):
        if pure[0] in ("some", "ctx", "try"):
            pure = strip_load(pure[1])
    if not is_dec or pure[0] != "call":
        R.bad("SZ4", "SZ4/Sodg::load/returns-something-else", load.where(osite), "load() returns something other than the graph it decoded",
              {"value": show(val, load)})
    else:
        touched = []
        for e in lraw:
            if e.kind == "write" and mentions(e.loc, lambda x: strip_sites(x) == strip_sites(val) or strip_sites(x) == strip_sites(pure)):
                touched.append((e, "write"))
            if e.kind == "call" and e.callee.get("local") and e.args and \
                    (strip_sites(strip_load(e.args[0])) in (strip_sites(val), strip_sites(pure)) or mentions_call(e.args[0], de)):
                cb = F.bodies.get(e.path)
                if cb is not None and cb.locals[1]["ty"].startswith("&mut"):
                    touched.append((e, e.name))
        if touched:
            e, what = touched[0]
            R.bad("SZ4", "SZ4/Sodg::load/post-load-fixup/%s" % what, e.where(),
                  "load() modifies the decoded graph before returning it (%s): the loaded graph is not the saved one" % what)
        else:
            R.ok("SZ4", load.where(osite), "load() returns the decoded graph unmodified")
    # ---- SZ5 codec family
    sp = sers[0].path if sers else None
    dp = de.path
    def codec_of(ev):
        """canonical description of the bincode configuration a (de)serialisation call uses"""
        if ev is None:
            return None
        if ev.path in ("bincode::serialize", "bincode::deserialize"):
            return ("options", "with_fixint_encoding", "allow_trailing_bytes")      # what bincode 1.x's free functions use
        if ev.path in ("bincode::Options::serialize", "bincode::Options::deserialize") and ev.args:
            chain = []
            x = strip_load(ev.args[0])
            for _ in range(8):
                if x[0] == "call" and x[1].startswith("bincode::") and x[2]:
                    if any(strip_load(a)[0] not in ("call",) for a in x[2][1:]):
                        return None         # an option with a run-time argument (a limit): compare literally instead
                    chain.append(x[1].split("::")[-1])
                    x = strip_load(x[2][0])
                    continue
                break
            if x[0] == "call" and x[1] in ("bincode::options", "bincode::DefaultOptions::new", "bincode::config::DefaultOptions::new") and not x[2]:
                return tuple(["options"] + list(reversed(chain)))
        return None
    sc, dc = codec_of(sers[0] if sers else None), codec_of(de)
    if sp == "bincode::serialize" and dp == "bincode::deserialize":
        R.ok("SZ5", de.where(), "save and load use the same bincode configuration (bincode::serialize / bincode::deserialize)")
    elif sc is not None and sc == dc and {sp.split("::")[-1], dp.split("::")[-1]} == {"serialize", "deserialize"}:
        R.ok("SZ5", de.where(), "save and load use the same bincode configuration (%s)" % ".".join(sc))
    else:
        R.bad("SZ5", "SZ5/Sodg/codec-pair", de.where(),
              "save() and load() do not use the matching pair of the same bincode configuration (%s vs %s)" % (sp, dp))


PANICKY = {"unwrap", "expect", "unwrap_unchecked", "unwrap_or", "unwrap_or_else", "unwrap_or_default", "ok", "or_else",
           "unwrap_err", "expect_err", "panic_fmt", "panic", "panic_display", "assert_failed", "unreachable_display",
           "begin_panic", "exit", "abort"}


def ld12(F, R):
    load = F.fn("Sodg", "load")
    if load is None:
        R.missing("LD1", "Sodg::load")
        return
    raw = Collector(F, stop_names=("len", "keys")).collect(load)
    R.analysed(load, len(raw))
    fallible = [e for e in raw if e.kind == "call" and not e.exp and (e.path.startswith("std::fs::") or e.krate == "bincode" or
                                                                      e.name in ("read_to_end", "read_to_string", "read_exact"))]
    R.floor("LD1", "fallible calls in load() (file read, decode)", len(fallible), 2, load.where())
    for e in raw:
        if e.kind == "call" and e.name in PANICKY and not e.exp:
            R.bad("LD1", "LD1/Sodg::load/%s" % e.name, e.where(),
                  "load() uses `%s`: a truncated or unreadable image panics or is silently replaced instead of giving Err" % e.name)
    # nothing in load() may panic on a short input: slicing / splitting the bytes read at a fixed position does
    for e in raw:
        if e.kind == "call" and not e.exp and e.name in ("split_at", "split_at_mut", "split_first", "split_last", "split_off", "drain", "copy_from_slice",
                                                         "swap_remove", "remove") and e.args and \
                (e.path.startswith("core::slice") or "[T]>" in e.path or "Vec" in e.path):
            if e.name in ("split_first", "split_last"):
                continue        # these return Option
            R.bad("LD1", "LD1/Sodg::load/may-panic-on-short-input/%s" % e.name, e.where(),
                  "load() applies `%s` to the bytes it read: an image shorter than the position panics instead of giving Err" % e.name)
    # ... and so does indexing / slicing them through the Index impls of Vec / slice / array (`bytes[..8]`, `bytes[0]`)
    for e in raw:
        if e.kind == "call" and not e.exp and e.callee.get("decl", "") in ("std::ops::Index::index", "std::ops::IndexMut::index_mut") and \
                ("Vec<" in e.path or "[T]" in e.path or "[u8" in e.path):
            R.bad("LD1", "LD1/Sodg::load/may-panic-on-short-input/index", e.where(),
                  "load() indexes or slices the bytes it read at a fixed position: an image shorter than that panics instead of giving Err "
                  "(`get(..)`, `first_chunk()` or `split_at_checked()` return an Option instead)")
    for site, kind, st in load.sites():
        if kind == "stmt" and st["k"] == "assign":
            for pl in [st["lhs"]] + [st["rv"].get("place")] if isinstance(st["rv"].get("place"), dict) else [st["lhs"]]:
                if pl and any(pe.get("k") in ("index", "constindex", "subslice") for pe in pl.get("proj", [])) and not st.get("exp"):
                    R.bad("LD1", "LD1/Sodg::load/may-panic-on-short-input/index", load.where(site),
                          "load() indexes into a buffer at a fixed position: a short image panics instead of giving Err")
    oks, others = ok_values(load)
    for site, a, kind in others:
        if kind == "err":
            continue
        # returning a fallible step's own result is propagation
        core = strip_load(a)
        for _ in range(4):
            if core[0] in ("ctx", "try"):
                core = strip_load(core[1])
        if core[0] == "call" and any(mentions_call(core, f) for f in fallible):
            continue
        if core[0] == "agg" and core[2] == "Err":
            continue        # Err(e).context(..)
        R.bad("LD2", "LD2/Sodg::load/unrecognised-result", load.where(site), "cannot establish LD2: load() returns an unrecognised value",
              {"value": show(a, load)[:300]})
    if not oks:
        R.missing("LD2", "success result in load()", load.where())
        return
    for osite, val, chain in oks:
        facts = load.facts_at(osite)
        deps = success_deps(chain) if chain is not None else []
        for f in fallible:
            ce = call_expr(f)
            by_flow = any(x[0] == "in" and x[2] <= frozenset(["Continue", "Ok"]) and mentions_call(x[1], f) for x in facts)
            by_value = any((d[1], d[3] if len(d) > 3 else None) == (f.path, f.site[0]) or mentions_call(d, f) for d in deps)
            if by_flow or by_value:
                R.ok("LD1", f.where(), "the result of %s is propagated: success is returned only if it succeeded" % short_path(f.path))
            else:
                R.bad("LD1", "LD1/Sodg::load/%s-result-not-propagated" % f.name, f.where(),
                      "the success return of load() does not depend on the success of %s: its failure does not become Err"
                      % short_path(f.path))
    R.ok("LD2", load.where(oks[0][0]), "the only success result of load() is reached through the success of read and decode")

#!/bin/bash
# confirm a seeded change: demo passes on the unchanged code, fails with the patch; existing suite passes with the patch.
# usage: sa/confirm_seed.sh <dir with patch.diff and demo.rs> [slot]   (scratch worktree + per-slot target dir under /tmp, worktree removed afterwards)
set -u
D=$(readlink -f "$1")
SLOT=${2:-0}
WT=/tmp/wt-confirm-$SLOT-$$
export CARGO_NET_OFFLINE=true
git -C /repo worktree add -q --detach $WT HEAD || exit 9
cleanup() { git -C /repo worktree remove --force $WT; }
trap cleanup EXIT
T=/tmp/confirm-target-$SLOT
[ -d $T ] || cp -r /repo/target $T
export CARGO_TARGET_DIR=$T
cd $WT
mkdir -p tests && cp "$D/demo.rs" tests/demo.rs
echo "== demo on unchanged code"
cargo test --offline --test demo 2>&1 | grep -E "^test result|^error" | head -3
git apply "$D/patch.diff" || { echo "PATCH DOES NOT APPLY"; exit 8; }
echo "== demo with the change"
cargo test --offline --test demo 2>&1 | grep -E "^test result|^error" | head -3
rm tests/demo.rs
echo "== existing suite with the change"
cargo test --offline 2>&1 | grep -E "^test result|^error" | head -4

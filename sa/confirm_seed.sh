#!/bin/bash
# confirm a seeded change: suite passes with the patch, demo fails with it and passes without it.
# usage: sa/confirm_seed.sh <dir with patch.diff and demo.rs>   (uses a scratch worktree, removed afterwards unless KEEP=1)
set -u
D=$(readlink -f "$1")
WT=/tmp/wt-confirm-$$
export CARGO_NET_OFFLINE=true
git -C /repo worktree add -q --detach $WT HEAD || exit 9
cleanup() { git -C /repo worktree remove --force $WT; }
trap cleanup EXIT
[ -d /tmp/confirm-target ] || cp -r /repo/target /tmp/confirm-target
export CARGO_TARGET_DIR=/tmp/confirm-target
cd $WT
mkdir -p tests && cp "$D/demo.rs" tests/demo.rs
echo "== demo on unchanged code"
cargo test --offline --test demo 2>&1 | grep -E "^test result|error(\[|:)" | head -3
BASE=$?
git apply "$D/patch.diff" || { echo "PATCH DOES NOT APPLY"; exit 8; }
echo "== demo with the change"
cargo test --offline --test demo 2>&1 | grep -E "^test result|error(\[|:)|panicked" | head -4
rm tests/demo.rs
echo "== existing suite with the change"
cargo test --offline 2>&1 | grep -E "^test result|error(\[|:)" | head -4

#!/bin/bash
# development aid: evaluate all seeded changes (must be reported) and all benign refactorings (must be silent)
cd "$(dirname "$0")/.."
miss=0; fa=0
for d in seeded/*/; do id=$(basename $d); prop=${id%-*}; r=$(python3 sa/evalseed.py $d/patch.diff 2>&1 | tr '\n' ' ' | tr -s ' '); if ! echo "$r" | grep -q "\"$prop\""; then echo "SEED-MISSED $id: $r" | cut -c1-300; miss=$((miss+1)); fi; done
for d in refactors/*/; do id=$(basename $d); r=$(python3 sa/evalseed.py $d/patch.diff 2>&1 | tr '\n' ' ' | tr -s ' '); if [ "$r" != "{} " ]; then echo "REF-ALARM $id: $r" | cut -c1-${W:-420}; fa=$((fa+1)); fi; done
echo "seeds missed: $miss / $(ls seeded | wc -l); refactor false alarms: $fa / $(ls refactors | wc -l)"

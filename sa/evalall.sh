#!/bin/bash
# development aid: evaluate all seeded changes (must be reported under their property) and all benign refactorings (must be silent),
# 6 in parallel (each slot has its own scratch target directory).  Usage: sa/evalall.sh [seeded|refactors]
cd "$(dirname "$0")/.."
python3 sa/evalseed.py seeded/C01-1/patch.diff C01 >/dev/null 2>&1   # warm the baseline cache
one() {
  d=$1; id=$(basename $d)
  # take a free slot (its scratch target directory and fact directory are exclusively ours while we hold the lock)
  while :; do
    for slot in 0 1 2 3 5 6; do
      exec 9>.work/evalslot.$slot
      if flock -n 9; then break 2; fi
    done
    sleep 0.2
  done
  r=$(EVAL_SLOT=$slot python3 sa/evalseed.py $d/patch.diff 2>&1 | tr '\n' ' ' | tr -s ' ')
  flock -u 9
  case $d in
    seeded/*) prop=${id%-*}; echo "$r" | grep -q "\"$prop\"" || echo "SEED-MISSED $id: $r" | cut -c1-300;;
    *) [ "$r" = "{} " ] || echo "REF-ALARM $id: $r" | cut -c1-${W:-420};;
  esac
}
export -f one
for k in ${1:-seeded refactors}; do ls -d $k/C*/; done | sed 's:/$::' | awk '{print $0, NR%6}' | xargs -P 6 -L 1 bash -c 'one $0 $1' | sort > /tmp/evalall.$$
cat /tmp/evalall.$$
echo "seeds missed: $(grep -c '^SEED-MISSED' /tmp/evalall.$$) / $(ls seeded | grep -c '^C'); refactor false alarms: $(grep -c '^REF-ALARM' /tmp/evalall.$$) / $(ls refactors | grep -c '^C')"
rm -f /tmp/evalall.$$

"""Development aid: first-order mutants of the library sources (mutation-testing style), to measure what the checks report on
changes nobody designed.  Usage:
    python3 sa/mutants.py gen                 -> mutants/all.json (list of {id, file, line, old, new, op})
    python3 sa/mutants.py test <slot> <k> <n> -> runs the unit tests on every n-th mutant starting at k in scratch slot <slot>;
                                                 appends to mutants/tested-<slot>.jsonl  (status: killed | survived | nocompile)
Only the non-test part of each file is mutated (everything before the first #[cfg(test)] / #[test])."""
import json, os, re, subprocess, sys, shutil, hashlib

VERIF = os.path.dirname(os.path.dirname(os.path.abspath(__file__)))
REPO = "/repo"
FILES = ["src/ops.rs", "src/misc.rs", "src/next.rs", "src/ctors.rs", "src/clone.rs", "src/merge.rs", "src/slice.rs", "src/script.rs",
         "src/hex.rs", "src/label.rs", "src/serialization.rs", "src/xml.rs", "src/dot.rs", "src/inspect.rs", "src/debug.rs", "src/lib.rs"]

REPL = [
    (r" == ", [" != "]), (r" != ", [" == "]), (r" <= ", [" < ", " > "]), (r" >= ", [" > ", " < "]), (r" < ", [" <= ", " >= "]), (r" > ", [" >= ", " <= "]),
    (r" && ", [" || "]), (r" \|\| ", [" && "]),
    (r" \+ 1\b", [" - 1", " + 0", " + 2"]), (r" - 1\b", [" + 1", " - 0"]), (r" \+= 1\b", [" -= 1", " += 0", " += 2"]), (r" -= 1\b", [" += 1", " -= 0"]),
    (r" \+ ", [" - "]), (r" \* ", [" + "]),
    (r"\bBRANCH_STATIC\b", ["BRANCH_NONE"]), (r"\bBRANCH_NONE\b", ["BRANCH_STATIC"]),
    (r"Persistence::Stored\b", ["Persistence::Taken", "Persistence::Empty"]), (r"Persistence::Taken\b", ["Persistence::Stored", "Persistence::Empty"]),
    (r"Persistence::Empty\b", ["Persistence::Stored", "Persistence::Taken"]),
    (r"\bHEX_SIZE\b", ["(HEX_SIZE - 1)", "(HEX_SIZE + 1)"]), (r"\bMAX_BRANCHES\b", ["(MAX_BRANCHES - 1)"]),
    (r"\b7\b", ["6", "8"]), (r"\b8\b", ["7", "9"]), (r"\b16\b", ["15", "17"]), (r"(?<![\w.])0(?![\w.])", ["1"]), (r"(?<![\w.])1(?![\w.])", ["0", "2"]),
    (r"\bcontinue;", ["break;"]), (r"\bbreak;", ["continue;"]),
    (r"\(v1, v2\b", ["(v2, v1"]), (r"\bv1\b", ["v2"]), (r"\bv2\b", ["v1"]), (r"\bleft\b", ["right"]), (r"\bright\b", ["left"]),
    (r"\.skip\(1\)", [".skip(0)", ".skip(2)"]), (r"!(?=[a-z(])", [""]),
    (r"\.is_empty\(\)", [".is_empty() == false"]), (r"\bSome\(", ["None.or(Some("]) ,
    # batch 3
    (r"\.first\(\)", [".last()"]), (r"\.last\(\)", [".first()"]), (r"\.is_some\(\)", [".is_none()"]), (r"\.is_none\(\)", [".is_some()"]),
    (r"\.is_ok\(\)", [".is_err()"]), (r"\.is_err\(\)", [".is_ok()"]), (r"to_be_bytes", ["to_le_bytes"]), (r"from_be_bytes", ["from_le_bytes"]),
    (r"\.min\(", [".max("]), (r"\.max\(", [".min("]), (r"\.map\(str::trim\)", [""]), (r"\.rev\(\)", [""]),
    (r"(?<![=!<>] )self\.next_v\b(?! [+\-]?=)", ["0"]),
    (r"'α'", ["'β'"]), (r"' '", ["'_'"]), (r"'\$'", ["'#'"]), (r"'ν'", ["'v'"]), (r"'ρ'", ["'σ'"]),
    (r"\.chars\(\)\.count\(\)", [".len()"]), (r"\.len\(\)", [".len() + 1", ".len() - 1"]),
    (r"\((\w+), (\w+)(?=[,)])", ["SWAP2"]),
    # batch 4: another variable of the same type in scope
    (r"\bours\b", ["theirs"]), (r"\btheirs\b", ["ours"]), (r"\bvtx1\b", ["vtx2"]), (r"\bvtx2\b", ["vtx1"]), (r"\bfirst\b(?!\()", ["*second"]),
    (r"\bdone\b", ["todo"]), (r"\btodo\b", ["done"]), (r"\bmatched\b", ["left"]), (r"\*to\b", ["right"]), (r"\*t\b", ["left"]),
    (r"\be\.1\b", ["v"]), (r"\bb\.0\b", ["ours"]), (r"\bseen\.contains\(e\.1\)", ["seen.contains(&v)"]),
]
SKIP_LINE = re.compile(r"^\s*(//|#\[|use |pub use |mod |pub mod |trace!|debug!|\"|\*|///)|panic!|anyhow!\(|format!\(\s*$|with_context|\.context\(|expect\(")


def code_part(text):
    lines = text.split("\n")
    for i, l in enumerate(lines):
        if l.strip().startswith("#[cfg(test)]") or l.strip() == "#[test]":
            return lines[:i], lines[i:]
    return lines, []


def gen():
    out = []
    for f in FILES:
        text = open(os.path.join(REPO, f)).read()
        code, rest = code_part(text)
        in_trace = 0
        for li, line in enumerate(code):
            st = line.strip()
            # skip multi-line trace!/debug! macro bodies
            if re.match(r"^\s*(trace|debug)!\($", line):
                in_trace = 1
            if in_trace:
                if st.endswith(");"):
                    in_trace = 0
                continue
            if not st or SKIP_LINE.search(line):
                continue
            seen = set()
            for pat, news in REPL:
                for m in re.finditer(pat, line):
                    for new in news:
                        if pat == r"\bSome\(":
                            continue
                        if new == "SWAP2":
                            if m.group(1) == m.group(2) or m.group(1).isdigit() and m.group(2).isdigit():
                                continue
                            new = "(%s, %s" % (m.group(2), m.group(1))
                        mut = line[:m.start()] + new + line[m.end():]
                        if mut == line or mut in seen:
                            continue
                        seen.add(mut)
                        out.append({"file": f, "line": li + 1, "old": line, "new": mut, "op": "%s -> %s" % (m.group(0).strip(), new.strip())})
            # condition replacement
            m = re.match(r"^(\s*(?:\} else )?if )(?!let )(.+)( \{)$", line)
            if m:
                for c in ("true", "false"):
                    out.append({"file": f, "line": li + 1, "old": line, "new": m.group(1) + c + m.group(3), "op": "if %s" % c})
            # ordering / adaptor removal
            for pat in (r"\.sorted\(\)", r"\.sorted_by_key\(\|[^|]*\| [^)]*\)", r"\.filter\(\|[^|]*\| [^()]*(?:\([^()]*\)[^()]*)*\)"):
                for m2 in re.finditer(pat, line):
                    out.append({"file": f, "line": li + 1, "old": line, "new": line[:m2.start()] + line[m2.end():], "op": "remove %s" % m2.group(0)[:20]})
            # statement deletion: a simple statement on one line
            if re.match(r"^\s*[\w.*\[\]&() ]+(\.\w+\(.*\)|\s[+\-]?=\s.*);$", line) and not st.startswith(("let ", "return", "Ok(", "Err(")):
                out.append({"file": f, "line": li + 1, "old": line, "new": re.match(r"^\s*", line).group(0) + "();", "op": "delete statement"})
        # skip a loop body / a unit function body
        for li, line in enumerate(code):
            if re.match(r"^\s*for .* \{$", line) and not line.strip().startswith("/"):
                out.append({"file": f, "line": li + 1, "old": line, "new": line + " continue;", "op": "skip loop body"})
                out.append({"file": f, "line": li + 1, "old": line, "new": line + " break;", "op": "leave loop at once"})
            if re.match(r"^\s*(pub )?fn \w+(<[^>]*>)?\(.*\) \{$", line):
                out.append({"file": f, "line": li + 1, "old": line, "new": line + " return;", "op": "skip function body"})
        # swap two adjacent simple statements of the same indentation
        simple = lambda l: re.match(r"^\s+.*;$", l) and not l.strip().startswith(("/", "*", "#")) and not re.match(r"^\s*(let |return|break|continue|use |\}|trace!|debug!)", l) and l.count("(") == l.count(")")
        for li in range(len(code) - 1):
            a, b2 = code[li], code[li + 1]
            if simple(a) and simple(b2) and re.match(r"^\s*", a).group(0) == re.match(r"^\s*", b2).group(0) and a != b2:
                out.append({"file": f, "line": li + 1, "old": a, "new": b2, "old2": b2, "new2": a, "op": "swap with next statement"})
    for i, m in enumerate(out):
        m["id"] = "M%04d" % i
    os.makedirs(os.path.join(VERIF, "mutants"), exist_ok=True)
    # keep the ids of the first batch stable: new operators get ids after the old ones
    try:
        prev = json.load(open(os.path.join(VERIF, "mutants", "all.json")))
        key = lambda m: (m["file"], m["line"], m["new"])
        known = {key(m): m["id"] for m in prev}
        nxt = len(prev)
        for m in out:
            if key(m) in known:
                m["id"] = known[key(m)]
            else:
                m["id"] = "M%04d" % nxt
                nxt += 1
        out.sort(key=lambda m: m["id"])
    except Exception:
        pass
    json.dump(out, open(os.path.join(VERIF, "mutants", "all.json"), "w"), indent=0)
    print(len(out), "mutants")


def slot_dir(slot):
    d = "/tmp/mut-slot-%s" % slot
    if not os.path.isdir(d):
        os.makedirs(d)
        subprocess.run(["rsync", "-a", "--exclude", ".git", REPO + "/", d + "/"], check=True)
    return d


def apply(d, m):
    p = os.path.join(d, m["file"])
    lines = open(os.path.join(REPO, m["file"])).read().split("\n")
    assert lines[m["line"] - 1] == m["old"], m
    lines[m["line"] - 1] = m["new"]
    if "new2" in m:
        assert lines[m["line"]] == m["old2"], m
        lines[m["line"]] = m["new2"]
    open(p, "w").write("\n".join(lines))


def restore(d, m):
    shutil.copy(os.path.join(REPO, m["file"]), os.path.join(d, m["file"]))


def test(slot, k, n):
    ms = json.load(open(os.path.join(VERIF, "mutants", "all.json")))
    d = slot_dir(slot)
    env = dict(os.environ, CARGO_NET_OFFLINE="true")
    outp = os.path.join(VERIF, "mutants", "tested-%s.jsonl" % slot)
    done = set()
    for fn in os.listdir(os.path.join(VERIF, "mutants")):
        if fn.startswith("tested-"):
            done |= {json.loads(l)["id"] for l in open(os.path.join(VERIF, "mutants", fn))}
    for i in range(k, len(ms), n):
        m = ms[i]
        if m["id"] in done:
            continue
        apply(d, m)
        try:
            p = subprocess.run(["cargo", "test", "--offline", "--lib", "-q"], cwd=d, env=env, capture_output=True, text=True, timeout=600)
            txt = p.stdout + p.stderr
            if "error[" in txt or "error:" in txt and "could not compile" in txt:
                status = "nocompile"
            elif p.returncode == 0:
                status = "survived"
            else:
                status = "killed"
        except subprocess.TimeoutExpired:
            status = "killed"     # hangs count as killed (timeout)
        restore(d, m)
        with open(outp, "a") as f:
            f.write(json.dumps({"id": m["id"], "status": status}) + "\n")


if __name__ == "__main__":
    if sys.argv[1] == "gen":
        gen()
    elif sys.argv[1] == "test":
        test(sys.argv[2], int(sys.argv[3]), int(sys.argv[4]))


def doc(slot, k, n):
    """doc tests for the unit-test survivors"""
    ms = {m["id"]: m for m in json.load(open(os.path.join(VERIF, "mutants", "all.json")))}
    surv = []
    for fn in sorted(os.listdir(os.path.join(VERIF, "mutants"))):
        if fn.startswith("tested-"):
            surv += [json.loads(l)["id"] for l in open(os.path.join(VERIF, "mutants", fn)) if json.loads(l)["status"] == "survived"]
    surv = sorted(set(surv))
    d = slot_dir(slot)
    env = dict(os.environ, CARGO_NET_OFFLINE="true")
    outp = os.path.join(VERIF, "mutants", "doc-%s.jsonl" % slot)
    ddone = set()
    for fn in os.listdir(os.path.join(VERIF, "mutants")):
        if fn.startswith("doc-"):
            ddone |= {json.loads(l)["id"] for l in open(os.path.join(VERIF, "mutants", fn))}
    for i in range(k, len(surv), n):
        m = ms[surv[i]]
        if m["id"] in ddone:
            continue
        apply(d, m)
        try:
            p = subprocess.run(["cargo", "test", "--offline", "--doc", "-q"], cwd=d, env=env, capture_output=True, text=True, timeout=900)
            status = "survived" if p.returncode == 0 else "killed"
        except subprocess.TimeoutExpired:
            status = "killed"
        restore(d, m)
        with open(outp, "a") as f:
            f.write(json.dumps({"id": m["id"], "status": status}) + "\n")


def patches():
    """one patch file per mutant that survives the whole suite"""
    ms = {m["id"]: m for m in json.load(open(os.path.join(VERIF, "mutants", "all.json")))}
    surv = []
    for fn in sorted(os.listdir(os.path.join(VERIF, "mutants"))):
        if fn.startswith("doc-"):
            surv += [json.loads(l)["id"] for l in open(os.path.join(VERIF, "mutants", fn)) if json.loads(l)["status"] == "survived"]
    os.makedirs(os.path.join(VERIF, "mutants", "survivors"), exist_ok=True)
    for mid in sorted(set(surv)):
        m = ms[mid]
        a = open(os.path.join(REPO, m["file"])).read().split("\n")
        b = list(a)
        b[m["line"] - 1] = m["new"]
        if "new2" in m:
            b[m["line"]] = m["new2"]
        import difflib
        diff = "".join(difflib.unified_diff([x + "\n" for x in a], [x + "\n" for x in b], "a/" + m["file"], "b/" + m["file"], n=3))
        dd = os.path.join(VERIF, "mutants", "survivors", mid)
        os.makedirs(dd, exist_ok=True)
        open(os.path.join(dd, "patch.diff"), "w").write(diff)
        json.dump(m, open(os.path.join(dd, "mutant.json"), "w"), indent=1)
    print(len(set(surv)), "survivors")


if __name__ == "__main__" and sys.argv[1] == "doc":
    doc(sys.argv[2], int(sys.argv[3]), int(sys.argv[4]))
if __name__ == "__main__" and sys.argv[1] == "patches":
    patches()
